#!/bin/bash
# runs every claimed quick check once and prints the summary/violation lines
cd /verif
for pid in $(python3 -c "import json;print(' '.join(c['property_id'] for c in json.load(open('MANIFEST.json'))['checks']))"); do
  ./check $pid --tier quick 2>&1 | grep -E "VIOLATION|HARNESS|tier=|Traceback|Error" | cut -c1-260 | head -8
done
