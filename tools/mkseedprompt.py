#!/usr/bin/env python3
"""tools/mkseedprompt.py <property id> <scratch dir>

Creates <scratch dir>/<id>/wt (detached worktree of /repo HEAD), <scratch dir>/<id>/out/ and <scratch dir>/<id>/prompt.txt:
the task text handed to a fresh sub-agent in a seeding wave (property text and its own worktree only, nothing from /verif).
Afterwards: tools/seedtest.py <scratch dir>/<id>/out <id><letter> <id> --keep, and remove the worktree."""
import json
import os
import subprocess
import sys

pid, base = sys.argv[1], os.path.abspath(sys.argv[2])
d = {json.loads(l)["id"]: json.loads(l) for l in open(os.path.join(os.path.dirname(os.path.dirname(os.path.abspath(__file__))), "properties.jsonl"))}[pid]
root = os.path.join(base, pid)
os.makedirs(os.path.join(root, "out"), exist_ok=True)
subprocess.run(["git", "-C", "/repo", "worktree", "add", "--detach", "-q", os.path.join(root, "wt"), "HEAD"], check=True)
txt = """You are working in a scratch git worktree of a Python library (a fork of ctparse: rule/regex based parser of German/English time expressions with a naive-Bayes scorer, plus subject and #label extraction): {root}/wt . Work ONLY inside {root}/ . Do not look at or touch /repo, /verif or any other directory. Python is /venv/bin/python (run with PYTHONPATH={root}/wt so the worktree is imported, and verify with `python -c 'import ctparse; print(ctparse.__file__)'`).

Here is a semantic property of the library that currently holds:

ID {pid}: {title}
Statement: {statement}
Quantified over: {quant}
Code anchors: {anchors}

Task: write ONE realistic change to the library source (a plausible refactor, optimisation or 'tidy-up' a maintainer could make by mistake - not sabotage that ordinary use exposes at once) that BREAKS this property while the code still imports and the existing test suite still passes. The change must need something specific to manifest: an unusual input, a particular value/boundary, a multi-step sequence of calls, a particular option combination, or two cooperating sites that each look fine alone. Prefer a subtle spot different from the obvious first idea (e.g. a secondary code path, a rarely used notation, an interaction between two rules, an option default).

Test suite (must still give exactly '70 passed, 1 failed' - the one failure tests/test_ctparse.py::test_ctparse fails already without your change):
  cd {root}/wt && /venv/bin/python -m pytest -q -p no:cacheprovider --timeout=900 2>&1 | tail -3

Deliver, in {root}/out/ :
  patch.diff  - `git -C {root}/wt diff` of your change (source files only; must apply with git apply to a clean checkout)
  demo.py     - small standalone program (imports ctparse from PYTHONPATH/cwd) that exits 1 (printing what went wrong) with the change and exits 0 without it; deterministic
  meta.json   - {{"property": "{pid}", "summary": "...what was changed and why it breaks the property...", "needs_to_manifest": "...what specific input/sequence is needed...", "files": [...]}}

Verify yourself: the suite result with the change, demo.py exit 1 with the change, and (git stash / git checkout) demo.py exit 0 without it; leave the worktree WITH the change applied at the end. You have about 12 minutes; keep it to one change and finish. Reply with a 3-line summary.""".format(
    root=root, pid=pid, title=d["title"], statement=d["statement"], quant=d["quantifier"]["text"], anchors=json.dumps(d["anchors"]["mechanism"])
)
open(os.path.join(root, "prompt.txt"), "w").write(txt)
print(os.path.join(root, "prompt.txt"))
