#!/bin/bash
# Re-confirms every stored seeded change against the CURRENT checks and the CURRENT /repo HEAD (detection-power regression):
# for each /verif/seeded/<name>: scratch worktree + patch + repo suite + demo + the quick checks that were recorded as detecting it
# (meta.json check_results with exit 1; the property's own check if none is recorded).
# Usage: tools/reseed_all.sh [parallel jobs, default 3] [name filter regex]
# Prints one line per seed; exit 1 if any seed does not apply, is not confirmed or is no longer detected.
cd "$(dirname "$0")/.."
J="${1:-3}"; F="${2:-.}"
one() {
  d="seeded/$1"; n="$1"
  p=$(python3 -c "import json;print(json.load(open('$d/meta.json'))['breaks_property'])")
  c=$(python3 -c "import json;m=json.load(open('$d/meta.json'));r=[k for k,v in m.get('check_results',{}).items() if v.get('exit')==1];print(','.join(r) if r else m['breaks_property'])")
  out=$(QV_NPROC=8 tools/seedtest.py "$d" "$n" "$p" --checks "$c" 2>&1 | tail -1 | cut -c1-200)
  echo "$n $p checks=$c $out"
}
export -f one
ls seeded | grep -E "$F" | xargs -P "$J" -I{} bash -c 'one {}' | tee /tmp/reseed_all.$$.log
bad=0
grep -qE "detected_by=\[\]|confirmed=False|PATCH DOES NOT|missing" /tmp/reseed_all.$$.log && bad=1
rm -f /tmp/reseed_all.$$.log
exit $bad
