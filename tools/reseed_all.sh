#!/bin/bash
# Re-confirms every stored seeded change against the CURRENT checks (detection-power regression):
# for each /verif/seeded/<name>: scratch worktree + patch + repo suite + demo + the property's own quick check.
# Prints one line per seed; exit 1 if any confirmed seed is no longer detected.
cd "$(dirname "$0")/.."
bad=0
for d in seeded/*/; do
  n=$(basename "$d"); p=$(python3 -c "import json;print(json.load(open('$d/meta.json'))['breaks_property'])")
  out=$(tools/seedtest.py "$d" "$n" "$p" --checks "$p" 2>&1 | tail -1)
  echo "$n $p $out"
  case "$out" in *"detected_by=['$p'"*) ;; *) bad=1;; esac
done
exit $bad
