#!/usr/bin/env python3
"""prints the markdown table 'seeded change x checks' from /verif/seeded/*/meta.json"""
import glob, json, os
rows = []
for p in sorted(glob.glob(os.path.join(os.path.dirname(os.path.dirname(os.path.abspath(__file__))), "seeded", "*", "meta.json"))):
    m = json.load(open(p))
    det = [k for k, c in m.get("check_results", {}).items() if c["exit"] == 1]
    miss = [k for k, c in m.get("check_results", {}).items() if c["exit"] != 1]
    rows.append("| {} | {} | {} | {} | {} |".format(m["name"], m["breaks_property"], (m.get("summary") or "")[:150].replace("|", "/").replace("\n", " "), (m.get("needs_to_manifest") or "")[:130].replace("|", "/").replace("\n", " "), ", ".join(det) + (" (also run, silent: " + ", ".join(miss) + ")" if miss else "")))
print("| seeded change | breaks | what was changed | needs to manifest | detected by (quick tier) |")
print("|---|---|---|---|---|")
print("\n".join(rows))
