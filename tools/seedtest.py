#!/usr/bin/env python3
"""tools/seedtest.py <src_dir> <name> <property> [--checks C01,C14|all] [--tier quick|thorough] [--keep]

Confirms a seeded property-breaking change and runs checks against it:
  src_dir contains patch_<x>.diff, demo_<x>.py, meta_<x>.json (x = last letter of <name>, or plain patch.diff/demo.py/meta.json)
  1. fresh scratch worktree of /repo HEAD (outside /repo and /verif), patch applied
  2. repository suite must still pass (70 passed, test_ctparse deselected)
  3. demo exits 1 with the change and 0 without
  4. the named checks are run with QV_REPO=<scratch> (evidence redirected, /verif/evidence untouched)
  5. with --keep the artefacts are stored as /verif/seeded/<name>/ (patch.diff, demo.py, meta.json incl. what was run)
The scratch worktree is removed at the end."""
import argparse
import json
import os
import re
import shutil
import subprocess
import sys
import tempfile

VERIF = os.path.dirname(os.path.dirname(os.path.abspath(__file__)))
PY = "/venv/bin/python"


def sh(cmd, **kw):
    return subprocess.run(cmd, shell=isinstance(cmd, str), capture_output=True, text=True, **kw)


def main():
    ap = argparse.ArgumentParser()
    ap.add_argument("src")
    ap.add_argument("name")
    ap.add_argument("prop")
    ap.add_argument("--checks", default=None)
    ap.add_argument("--tier", default="quick")
    ap.add_argument("--keep", action="store_true")
    a = ap.parse_args()
    a.src = os.path.abspath(a.src)
    x = a.name[-1]
    def pick(base, ext):
        for cand in ("{}_{}.{}".format(base, x, ext), "{}.{}".format(base, ext)):
            p = os.path.join(a.src, cand)
            if os.path.exists(p):
                return p
        raise SystemExit("missing {} in {}".format(base, a.src))
    patch, demo, meta = pick("patch", "diff"), pick("demo", "py"), pick("meta", "json")
    wt = tempfile.mkdtemp(prefix="qvseed.")
    os.rmdir(wt)
    out = wt + ".out"
    os.makedirs(out)
    res = {"name": a.name, "property": a.prop}
    try:
        r = sh(["git", "-C", "/repo", "worktree", "add", "--detach", "-q", wt, "HEAD"])
        assert r.returncode == 0, r.stderr
        env = dict(os.environ, PYTHONPATH=wt, PYTHONWARNINGS="ignore")
        r = sh([PY, demo], cwd=wt, env=env)
        res["demo_clean_exit"] = r.returncode
        r = sh(["git", "-C", wt, "apply", patch])
        if r.returncode != 0:
            print("PATCH DOES NOT APPLY:", r.stderr)
            res["applies"] = False
            print(json.dumps(res))
            return 2
        res["applies"] = True
        # full suite: BASELINE expects 70 passed and exactly one failure, tests/test_ctparse.py::test_ctparse (always_fail)
        r = sh([PY, "-m", "pytest", "-q", "-p", "no:cacheprovider", "-n", "8", "-rf"], cwd=wt, env=env)
        m = re.search(r"(\d+) passed", r.stdout)
        res["tests_passed"] = int(m.group(1)) if m else 0
        failed = re.findall(r"^FAILED (\S+)", r.stdout, re.M)
        res["tests_failed"] = [f for f in failed if f != "tests/test_ctparse.py::test_ctparse"]
        r = sh([PY, demo], cwd=wt, env=env)
        res["demo_changed_exit"] = r.returncode
        res["demo_output"] = (r.stdout + r.stderr)[-600:]
        checks = []
        if a.checks == "all":
            checks = [c["property_id"] for c in json.load(open(os.path.join(VERIF, "MANIFEST.json")))["checks"]]
        elif a.checks:
            checks = a.checks.split(",")
        else:
            checks = [a.prop]
        res["checks"] = {}
        for pid in checks:
            e = dict(os.environ, QV_REPO=wt, QV_OUT=out, VERIF_TIER=a.tier)
            r = sh([os.path.join(VERIF, "check"), pid, "--tier", a.tier], env=e)
            lines = [l for l in r.stdout.splitlines() if l.startswith(("VIOLATION", "HARNESS", "KNOWN"))]
            summ = [l for l in r.stdout.splitlines() if " tier=" in l]
            res["checks"][pid] = {"exit": r.returncode, "violations": sum(1 for l in lines if l.startswith("VIOLATION")), "first": (next((l for l in lines if l.startswith(("VIOLATION", "HARNESS"))), "")[:400]), "summary": summ[-1] if summ else r.stdout[-300:] + r.stderr[-300:]}
            print("  {} exit={} {}".format(pid, r.returncode, res["checks"][pid]["first"][:300]))
        ok = res["tests_passed"] == 70 and not res["tests_failed"] and res["demo_changed_exit"] == 1 and res["demo_clean_exit"] == 0
        res["confirmed"] = ok
        print("confirmed={} tests_passed={} demo(clean)={} demo(changed)={} detected_by={}".format(ok, res["tests_passed"], res["demo_clean_exit"], res["demo_changed_exit"], [p for p, c in res["checks"].items() if c["exit"] == 1]))
        if a.keep and ok:
            dst = os.path.join(VERIF, "seeded", a.name)
            os.makedirs(dst, exist_ok=True)
            shutil.copy(patch, os.path.join(dst, "patch.diff"))
            shutil.copy(demo, os.path.join(dst, "demo.py"))
            md = json.load(open(meta))
            md.update({"name": a.name, "breaks_property": a.prop, "confirmed": {"repo_tests_with_change": "{} passed".format(res["tests_passed"]), "demo_exit_with_change": res["demo_changed_exit"], "demo_exit_without_change": res["demo_clean_exit"]},
                       "ran": ["git apply patch.diff in a scratch worktree of /repo HEAD", "pytest (70 passed)", "demo.py with and without the change", "./check <ID> --tier {} with QV_REPO=<scratch>".format(a.tier)],
                       "check_results": {p: {"exit": c["exit"], "first_violation": c["first"]} for p, c in res["checks"].items()}})
            json.dump(md, open(os.path.join(dst, "meta.json"), "w"), indent=1, ensure_ascii=False)
        return 0
    finally:
        sh(["git", "-C", "/repo", "worktree", "remove", "--force", wt])
        shutil.rmtree(wt, ignore_errors=True)
        shutil.rmtree(out, ignore_errors=True)


if __name__ == "__main__":
    sys.exit(main())
