#!/usr/bin/env python3
"""writes qv/vocab_frozen.json from the CURRENT /repo tree (run once on the reference tree; commit the result)"""
import json, os, sys
HERE = os.path.dirname(os.path.dirname(os.path.abspath(__file__)))
sys.path.insert(0, "/repo"); sys.path.insert(0, HERE)
import logging, warnings
warnings.filterwarnings("ignore"); logging.disable(logging.CRITICAL)
from qv import vocab
vocab._FROZEN = {}
out = {"dows": {str(i): list(a) for i, a in vocab.dows()}, "months": {str(i): list(a) for i, a in vocab.months()},
       "pods": {n: list(a) for n, a in vocab.pods()}, "named_hours": {str(n): list(a) for n, a in vocab.named_hours()},
       "named_numbers": {str(n): list(a) for n, a in vocab.named_numbers()}, "duration_units": {u: list(a) for u, a in vocab.duration_units()},
       "joiners": {"all": list(vocab.joiners())}, "lang": {}}
for rn in ["ruleToday", "ruleNow", "ruleTomorrow", "ruleAfterTomorrow", "ruleYesterday", "ruleBeforeYesterday", "ruleEOM", "ruleEOY", "ruleAtDOW", "ruleNextDOW", "ruleDOWNextWeek",
           "ruleBeforeTime", "ruleAfterTime", "ruleQuarterBeforeHH", "ruleQuarterAfterHH", "ruleHalfBeforeHH", "ruleHalfAfterHH", "ruleEarlyLatePOD", "ruleAbsorbOnTime", "ruleAbsorbFromInterval"]:
    out["lang"][rn + ":0"] = list(vocab.lang(rn))
json.dump(out, open(os.path.join(HERE, "qv", "vocab_frozen.json"), "w", encoding="utf-8"), indent=0, ensure_ascii=False)
print({k: sum(len(v) for v in d.values()) for k, d in out.items()})
