#!/bin/bash
# runs the repository's own suite on /repo (or $1) and prints the summary line; expects 70 passed, 1 failed (test_ctparse is in BASELINE always_fail)
D="${1:-/repo}"
cd "$D" && PYTHONPATH="$D" /venv/bin/python -m pytest -q -p no:cacheprovider --timeout=900 -n 8 2>&1 | tail -4
