#!/usr/bin/env python3
"""Regenerates /verif/MANIFEST.json from the table below (only checks whose module exists are claimed)."""
import json
import os

HERE = os.path.dirname(os.path.dirname(os.path.abspath(__file__)))

EXPL = "exploration"
MC = "model_checking"
FE = "fault_enumeration"

CHECKS = {
    "C01": (EXPL, "4.C01", "bounded-exhaustive enumeration of token strings x options x model-absent fault; derivation-graph DAG check",
            "Every text of <=k tokens from a mechanically built token alphabet (plus every Unicode scalar value as a one-character text in thorough) is parsed under the full option product, with a deterministic step budget standing in for non-termination; str/repr/subject/labels are checked on every result.",
            "Strings bounded to <=2 tokens (thorough: 3 over the hazard sub-alphabet) plus all ordered pairs of grammar sentences under joiners; reference times are the EDGE_TS list; termination for arbitrary scorers rests on the derivation graphs explored by C15 being finite DAGs."),
    "C02": (EXPL, "4.C02", "bounded-exhaustive enumeration of all streamed candidates against a calendar invariant",
            "Every candidate (not only the winner) streamed for every enumerated text x reference time x latent on/off is checked field by field against refcal; accessors are called on each.",
            "Text space bounded as in C01 plus the value-complete grammar forms; refcal is the calendar specification."),
    "C03": (EXPL, "4.C03", "bounded-exhaustive replay of the specification grammar's relative-day language over a 4-year (quick) / 28-year (thorough) cycle of reference dates",
            "Every surface form the rule patterns offer for the relative-day expressions is replayed at every reference date of the cycle and compared with date-ordinal arithmetic; complete within the stated cycle, so any off-by-one at a month/year/leap boundary inside it is visited by construction.",
            "refcal (datetime.date ordinals) is the specification; reference dates outside 2016-2043 (+ EDGE_TS 1970-2100) are not explored."),
    "C04": (EXPL, "4.C04", "bounded-exhaustive replay: all surface forms x all values at EDGE_TS, canonical forms x every date of the cycle",
            "Nearest-future search on date ordinals is the oracle for weekday, day-of-month, day+month and part-of-day forms at every reference date of the cycle.",
            "refcal is the specification; 28-year cycle; the 8-year leap gap around 2100 is outside the quantifier."),
    "C05": (EXPL, "4.C05", "bounded-exhaustive replay: every valid date 1990-2029 x notation x reference time",
            "Every valid calendar date of the range is written in every notation and must resolve to exactly itself under every reference time of the list.",
            "Notations are those the rule patterns and corpora demonstrate; military-time exclusion as stated in the property."),
    "C06": (EXPL, "4.C06", "bounded-exhaustive replay: 1440 minutes x clock notations; latent anchoring at boundary reference minutes",
            "Each minute of the day in each applicable notation must resolve to that hour/minute; anchoring is checked against a first-strictly-after search on both sides of the requested minute.",
            "refcal/datetime arithmetic is the specification; reference days are a boundary list."),
    "C07": (EXPL, "4.C07", "bounded-exhaustive replay: all 24x24 hour pairs x joiners x day contexts; ordered/reversed date pairs; bound forms",
            "Interval ends, ordering and the 12h/next-day wrap rule are computed in the model and compared for every pair.",
            "Minute variants and date set are boundary lists; joiners are the full language of the joiner pattern."),
    "C08": (EXPL, "4.C08", "bounded-exhaustive replay: N x unit words x number words; date + duration end arithmetic over a leap cycle",
            "Every number word and unit alternative of the patterns is tried; end dates are compared with refcal month-clipping arithmetic.",
            "N bounded to 0..120 for digits; start dates: 4-year cycle."),
    "C09": (EXPL, "4.C09", "bounded-exhaustive relational replay: expression vs expression embedded among 0-3 inert words",
            "Resolution and span of the embedded expression must equal those of the expression alone for all (prefix, suffix) counts in 0..3.",
            "Inert words are computed with the library's own patterns; expressions are the corpus strings + grammar sentences."),
    "C10": (EXPL, "4.C10", "bounded-exhaustive enumeration of arrangements of words, hashtags and a time expression with every separator",
            "Labels/subject are compared with a boring reference (regex-free token model) on every arrangement, with and without the time expression.",
            "<=5 items per text; separators from the library's separator classes."),
    "C11": (EXPL, "4.C11", "exhaustive enumeration of all Unicode scalar values as a separator + bounded-exhaustive separator runs / case variants end to end",
            "Function-level claim is checked on every assigned code point; end-to-end equivalence on every corpus/grammar sentence under each variant.",
            "Category oracle is Python's unicodedata; code points on which unicodedata and the regex module disagree are counted as unresolved."),
    "C12": (MC, "4.C12", "explicit-state BFS over call histories + exhaustive generator-step interleavings + preemption-bounded 2-thread schedule exploration (settrace scheduler; call granularity, plus line granularity directed at shared-state write points) on the real code",
            "All histories up to the depth bound, all merges of two short streams, and all schedules up to the preemption bound are executed on the real code and compared with a fresh-process reference table; module state is fingerprinted after every operation.",
            "Preemption bound 1; quick: call granularity + line granularity at profiled write points of module-level state, thorough: every line point for two pairs; hash seeds are an enumerated list; reference table from one fresh interpreter per pool entry; every case runs in a forked child of a worker that imported the library but never parsed (no carry-over between cases); directed three-party histories (open stream, finished call, another finished call, drain) beyond the depth bound; bounds as reported in the evidence."),
    "C13": (FE, "4.C13", "exhaustive expiry-point enumeration with a virtual clock",
            "The deadline is placed between every two consecutive clock events of a run (virtual perf_counter; three clock models: reads only, reads+scorer/rule ticks, and ticks with the shipped scorer object passed as is and rows counted at the model); prefix property, no-raise, best-of-prefix and bounded post-deadline work (<=2 initial scorings, <=1 partial parse touched) are checked at every expiry point.",
            "Time only advances at clock reads; inputs are a fixed family incl. n repeated ambiguous tokens; combinations with more than 800 (quick) / 6000 (thorough) expiry points are listed in the evidence and not explored; rule-applicability analyses counted at PartialParse._filter_rules; an unlimited stream interleaved with timed parses must stay complete; one wide-stack input (729 candidate sequences, clock model reads) is explored at every expiry point of the initial-stack phases in quick and completely in thorough, independent of the 800 cap."),
    "C14": (EXPL, "4.C14", "bounded-exhaustive comparison of ctparse() with list(ctparse_gen()) over texts x option vectors",
            "The single-result call must equal a maximal-score element of the stream for every enumerated text and option vector.",
            "Text space bounded as in C01; Random scorer seeded identically for both entry points."),
    "C15": (MC, "4.C15", "explicit-state BFS of the derivation graph on the real rule functions + conformance replay of every streamed trace",
            "For every enumerated text the full derivation graph is built with the registered rules (deep-copied arguments) and every candidate streamed by the implementation is replayed on it (soundness), every terminal value must be streamed (completeness at depth 0), every transition is checked for argument purity.",
            "Texts bounded so the graph is enumerable; reference times a short list."),
    "C16": (EXPL, "4.C16", "small-scope exhaustive enumeration of training corpora x query documents against a textbook NB reference",
            "All training sets within the scope bound and all queries are compared with an independent Laplace-smoothed multinomial NB over 1-3-grams.",
            "Scope: <=3 documents, <=3 symbols, length <=3; the reference is the textbook formula (scikit-learn is not in the image)."),
    "C17": (EXPL, "4.C17", "exhaustive replay of all bundled dataset entries + small-scope exhaustive duplication monotonicity",
            "The harness rebuilds the expected sample list from ctparse_gen itself and compares element-wise; duplication monotonicity is checked on every small-scope training set.",
            "Labels compared by observation tuples (not by the classes' own equality)."),
    "C18": (EXPL, "4.C18", "exhaustive all-pairs enumeration over boundary value sets of Time/Interval/Duration",
            "== / hash / nb_str / parse_nb_string are compared with tuple semantics on all pairs; depth-2 operation sequences (hash/==, then assignment of one field) are compared with freshly built twins.",
            "Field domains are boundary sets plus full single-field sweeps; assignment sequences on the first 400 objects per kind in quick, all in thorough, three donor objects each."),
    "C19": (MC, "4.C19", "AST/registry enumeration + probe-string enumeration + explicit-state BFS of part-of-day modifier chains on the real rule",
            "Registry vs syntax tree, all patterns x all probe strings, the POD-chain state space to a fixpoint/depth bound, and the model vocabulary are enumerated completely.",
            "Probe strings bounded to length 3 over class representatives; id shifts inside the id range are invisible to the vocabulary check."),
    "C20": (EXPL, "4.C20", "bounded-exhaustive relational replay: day expression x clock notation x order x connector",
            "The composed parse must equal (date of the day part alone, hour/minute of the clock part alone) for every pair.",
            "Day expressions one per surface family; clock times a boundary list in quick, all notations in thorough."),
}


def main():
    checks = []
    na = []
    for pid in sorted(CHECKS):
        level, ref, tech, text, note = CHECKS[pid]
        if os.path.exists(os.path.join(HERE, "qv", "checks", pid + ".py")):
            checks.append(
                {
                    "property_id": pid,
                    "quick_cmd": "./check {} --tier quick".format(pid),
                    "thorough_cmd": "./check {} --tier thorough".format(pid),
                    "evidence_file": "/verif/evidence/{}.json".format(pid),
                    "replay_cmd_template": "./check {} --replay {{path}}".format(pid),
                    "engine": "qv",
                    "level_claimed": {"category": level, "text": text, "design_ref": "DESIGN.md " + ref},
                    "level_note": note,
                    "technique": tech,
                }
            )
        else:
            na.append({"property_id": pid, "reason": "check not built yet in this revision (planned, see DESIGN.md section {}); no claim is made".format(ref)})
    m = {
        "version": 1,
        "setup_cmd": "true",
        "hooks": {
            "guard": "ACREOM_QUICKADD_VERIF",
            "enable": "no source hooks: the harness interposes from outside (ctparse.timers.perf_counter, scorer= parameter, registry wrappers, sys.settrace); checks import the working tree of /repo directly",
            "baseline_off_cmd": "cd /repo && /venv/bin/python -m pytest -ra -q -p no:cacheprovider --timeout=900 --continue-on-collection-errors",
            "source_commits": [],
            "add_only": True,
        },
        "engines": [
            {
                "name": "qv",
                "path": "/verif/qv",
                "serves_properties": [c["property_id"] for c in checks],
                "kind_free_text": "hand-written bounded-exhaustive explorers in Python (input-space enumeration against reference models; explicit-state BFS on the real rule functions; virtual-clock expiry enumeration; history/interleaving/schedule exploration), 16-process pool",
            }
        ],
        "checks": checks,
        "not_applicable": na,
        "notes": "Every check: ./check <ID> [--tier quick|thorough]; VERIF_SEED/VERIF_TIER honoured; evidence in /verif/evidence/<ID>.json; violations as VIOLATION lines with replay files under /verif/replays/<ID>/; known findings in /verif/known_findings.json.",
    }
    with open(os.path.join(HERE, "MANIFEST.json"), "w") as fd:
        json.dump(m, fd, indent=1)
    print("claimed:", [c["property_id"] for c in checks])


if __name__ == "__main__":
    main()
