#!/bin/bash
# tools/trymut.sh <patch.diff> <PID> [<PID>...]   (env: TIER=quick|thorough, SKIPTESTS=1)
# Applies a patch to a scratch worktree of /repo (outside /repo and /verif), runs the repository's
# own suite there, then the named checks with QV_REPO pointing at it; removes the worktree.
set -u
PATCH="$(readlink -f "$1")"; shift
W="$(mktemp -d /tmp/qvmut.XXXXXX)"; rmdir "$W"
git -C /repo worktree add --detach -q "$W" HEAD || exit 2
trap 'git -C /repo worktree remove --force "$W" >/dev/null 2>&1; rm -rf "$W" "$W.out"' EXIT
if ! git -C "$W" apply "$PATCH"; then echo "PATCH DOES NOT APPLY"; exit 2; fi
if [ -z "${SKIPTESTS:-}" ]; then
  (cd "$W" && PYTHONPATH="$W" /venv/bin/python -m pytest -q -p no:cacheprovider -n 8 2>&1 | tail -2)
fi
mkdir -p "$W.out"
for pid in "$@"; do
  QV_REPO="$W" QV_OUT="$W.out" VERIF_TIER="${TIER:-quick}" /verif/check "$pid" 2>&1 | grep -E "VIOLATION|KNOWN|HARNESS|tier=" | cut -c1-400 | head -12
done
