"""Textbook Laplace-smoothed multinomial naive Bayes over 1..3-grams of a token
sequence.  Written for clarity, shares no code with the implementation."""
import math
from collections import Counter


def ngrams(doc, lo=1, hi=3):
    out = []
    for n in range(lo, hi + 1):
        for i in range(0, len(doc) - n + 1):
            out.append(" ".join(doc[i : i + n]))
    return out


class RefNB:
    def __init__(self, docs, labels, alpha=1.0):
        """labels: True/False (positive / negative)"""
        self.vocab = sorted({g for d in docs for g in ngrams(d)})
        V = len(self.vocab)
        cnt = {True: Counter(), False: Counter()}
        ndocs = {True: 0, False: 0}
        for d, y in zip(docs, labels):
            y = bool(y)
            ndocs[y] += 1
            cnt[y].update(ngrams(d))
        N = ndocs[True] + ndocs[False]
        self.prior = {c: math.log(ndocs[c] / N) for c in (True, False)}
        self.loglik = {}
        for c in (True, False):
            total = sum(cnt[c].values())
            self.loglik[c] = {g: math.log((cnt[c][g] + alpha) / (total + alpha * V)) for g in self.vocab}

    def joint(self, doc):
        j = {}
        for c in (True, False):
            s = self.prior[c]
            for g in ngrams(doc):
                if g in self.loglik[c]:
                    s += self.loglik[c][g]
            j[c] = s
        return j

    def log_proba(self, doc):
        """(log P(neg|doc), log P(pos|doc)) by direct normalisation"""
        j = self.joint(doc)
        m = max(j.values())
        z = m + math.log(math.exp(j[False] - m) + math.exp(j[True] - m))
        return (j[False] - z, j[True] - z)

    def log_odds(self, doc):
        j = self.joint(doc)
        return j[True] - j[False]


def log_odds_from_tables(vocabulary, loglik_pos, loglik_neg, prior_neg, prior_pos, doc):
    """log-odds recomputed from a fitted model's own tables (checks n-gram extraction + score composition, not training)"""
    s = prior_pos - prior_neg
    for g in ngrams(doc):
        idx = vocabulary.get(g)
        if idx is not None:
            s += loglik_pos[idx] - loglik_neg[idx]
    return s
