"""Vocabulary of surface forms, read from the rule module under test.

Everything here is *derived* from the pattern strings of the working tree
(`ctparse.time.rules`, `ctparse.rule`) with `qv.rx.language`; the harness adds no
word of its own.  If a pattern changes, the vocabulary follows."""
import functools

from . import rx


def _mods():
    from ctparse import rule as RU
    from ctparse.time import rules as R

    return RU, R


@functools.lru_cache(None)
def rule_pattern(rule_name, index=0):
    """pattern string of the index-th regex predicate of a registered rule"""
    RU, _ = _mods()
    preds = [p for p in RU.rules[rule_name][1] if p.__name__ == "_regex_match"]
    rid = preds[index].__closure__[0].cell_contents
    return RU._regex_str[rid]


@functools.lru_cache(None)
def lang(rule_name, index=0):
    return tuple(rx.language(rule_pattern(rule_name, index)))


@functools.lru_cache(None)
def dows():
    """[(weekday index 0=Mon, (alternatives...))]"""
    _, R = _mods()
    return tuple((i, tuple(rx.language(p))) for i, (_, p) in enumerate(R._dows))


@functools.lru_cache(None)
def months():
    _, R = _mods()
    return tuple((i + 1, tuple(rx.language(p))) for i, (_, p) in enumerate(R._months))


@functools.lru_cache(None)
def pods():
    _, R = _mods()
    return tuple((name, tuple(rx.language(p))) for name, p in R._pods)


@functools.lru_cache(None)
def named_hours():
    _, R = _mods()
    return tuple((n, tuple(rx.language(p))) for n, p in R._named_ts)


@functools.lru_cache(None)
def named_numbers():
    _, R = _mods()
    return tuple((n, tuple(rx.language(p))) for n, p in R._named_number)


@functools.lru_cache(None)
def duration_units():
    _, R = _mods()
    return tuple((u.value, tuple(rx.language(p))) for u, p in R._durations)


@functools.lru_cache(None)
def joiners():
    RU, _ = _mods()
    return tuple(rx.language(RU._regex_to_join))


def canon(alts, prefer=()):
    """canonical alternative: a preferred spelling if the pattern still offers it, else the first"""
    for p in prefer:
        if p in alts:
            return p
    return alts[0]


EN_DOW = ("monday", "tuesday", "wednesday", "thursday", "friday", "saturday", "sunday")
DE_DOW = ("montag", "dienstag", "mittwoch", "donnerstag", "freitag", "samstag", "sonntag")
EN_MONTH = ("january", "february", "march", "april", "may", "june", "july", "august", "september", "october", "november", "december")
DE_MONTH = ("januar", "februar", "märz", "april", "mai", "juni", "juli", "august", "september", "oktober", "november", "dezember")
