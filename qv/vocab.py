"""Vocabulary of surface forms, read from the rule module under test.

Everything here is *derived* from the pattern strings of the working tree
(`ctparse.time.rules`, `ctparse.rule`) with `qv.rx.language`; the harness adds no
word of its own.  If a pattern changes, the vocabulary follows."""
import functools
import json
import os

from . import rx

# Snapshot of the vocabulary the library offered when the checks were written (tools/freeze_vocab.py).  Every function below
# returns the UNION of the snapshot and what the patterns of the tree under test offer now: a spelling must not silently drop
# out of the tested language because a pattern was narrowed (that is exactly the kind of change the checks have to see).
_FROZEN_PATH = os.path.join(os.path.dirname(os.path.abspath(__file__)), "vocab_frozen.json")
try:
    with open(_FROZEN_PATH, encoding="utf-8") as _fd:
        _FROZEN = json.load(_fd)
except OSError:
    _FROZEN = {}


def _union(kind, key, current):
    frozen = _FROZEN.get(kind, {}).get(str(key), [])
    return tuple(dict.fromkeys(list(frozen) + list(current)))


def _safe_lang(pattern):
    try:
        return rx.language(pattern)
    except Exception:
        return []


def _mods():
    from ctparse import rule as RU
    from ctparse.time import rules as R

    return RU, R


@functools.lru_cache(None)
def rule_pattern(rule_name, index=0):
    """pattern string of the index-th regex predicate of a registered rule"""
    RU, _ = _mods()
    preds = [p for p in RU.rules[rule_name][1] if p.__name__ == "_regex_match"]
    rid = preds[index].__closure__[0].cell_contents
    return RU._regex_str[rid]


@functools.lru_cache(None)
def lang(rule_name, index=0):
    try:
        cur = _safe_lang(rule_pattern(rule_name, index))
    except Exception:
        cur = []
    return _union("lang", "%s:%d" % (rule_name, index), cur)


@functools.lru_cache(None)
def dows():
    """[(weekday index 0=Mon, (alternatives...))]"""
    _, R = _mods()
    return tuple((i, _union("dows", i, _safe_lang(p))) for i, (_, p) in enumerate(R._dows))


@functools.lru_cache(None)
def months():
    _, R = _mods()
    return tuple((i + 1, _union("months", i + 1, _safe_lang(p))) for i, (_, p) in enumerate(R._months))


@functools.lru_cache(None)
def pods():
    _, R = _mods()
    return tuple((name, _union("pods", name, _safe_lang(p))) for name, p in R._pods)


@functools.lru_cache(None)
def named_hours():
    _, R = _mods()
    return tuple((n, _union("named_hours", n, _safe_lang(p))) for n, p in R._named_ts)


@functools.lru_cache(None)
def named_numbers():
    _, R = _mods()
    return tuple((n, _union("named_numbers", n, _safe_lang(p))) for n, p in R._named_number)


@functools.lru_cache(None)
def duration_units():
    _, R = _mods()
    return tuple((u.value, _union("duration_units", u.value, _safe_lang(p))) for u, p in R._durations)


@functools.lru_cache(None)
def joiners():
    RU, _ = _mods()
    return _union("joiners", "all", _safe_lang(RU._regex_to_join))


def canon(alts, prefer=()):
    """canonical alternative: a preferred spelling if the pattern still offers it, else the first"""
    for p in prefer:
        if p in alts:
            return p
    return alts[0]


EN_DOW = ("monday", "tuesday", "wednesday", "thursday", "friday", "saturday", "sunday")
DE_DOW = ("montag", "dienstag", "mittwoch", "donnerstag", "freitag", "samstag", "sonntag")
EN_MONTH = ("january", "february", "march", "april", "may", "june", "july", "august", "september", "october", "november", "december")
DE_MONTH = ("januar", "februar", "märz", "april", "mai", "juni", "juli", "august", "september", "oktober", "november", "dezember")
