import argparse
import os
import sys

from . import runner


def main():
    ap = argparse.ArgumentParser()
    ap.add_argument("pid")
    ap.add_argument("--tier", default=os.environ.get("VERIF_TIER") or "quick", choices=["quick", "thorough"])
    ap.add_argument("--seed", type=int, default=int(os.environ.get("VERIF_SEED") or 0))
    ap.add_argument("--replay")
    a = ap.parse_args()
    rc = runner.run_module("qv.checks." + a.pid, a.tier, a.seed, replay=a.replay)
    sys.stdout.flush()
    sys.exit(rc)


if __name__ == "__main__":
    main()
