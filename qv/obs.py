"""Canonical observation of a resolution, read attribute by attribute.
Deliberately independent of Artifact.__eq__/__hash__/__str__ (those are under test in C18)."""


def obs(r):
    if r is None:
        return None
    n = type(r).__name__
    if n == "Time":
        return ("T", r.year, r.month, r.day, r.hour, r.minute, r.DOW, r.POD)
    if n == "Interval":
        return ("I", obs(r.t_from), obs(r.t_to))
    if n == "Duration":
        u = r.unit
        return ("D", r.value, getattr(u, "value", u))
    if n == "RegexMatch":
        return ("R", r.id, r.mstart, r.mend)
    return ("?", n, repr(r))


def span(r):
    if r is None:
        return None
    return (r.mstart, r.mend)


def obs_span(r):
    return (obs(r), span(r))


def T(year=None, month=None, day=None, hour=None, minute=None, DOW=None, POD=None):
    """Expected-value constructor in observation form."""
    return ("T", year, month, day, hour, minute, DOW, POD)


def is_date(o):
    return o is not None and o[0] == "T" and None not in o[1:4] and o[4] is None and o[5] is None and o[6] is None and o[7] is None


def is_tod(o):
    return o is not None and o[0] == "T" and o[1] is None and o[2] is None and o[3] is None and o[4] is not None and o[6] is None and o[7] is None


def fmt(o):
    if o is None:
        return "None"
    if o[0] == "T":
        f = lambda v, w: "X" if v is None else ("{:0%dd}" % w).format(v)
        return "{}-{}-{} {}:{} ({}/{})".format(f(o[1], 4), f(o[2], 2), f(o[3], 2), f(o[4], 2), f(o[5], 2), "X" if o[6] is None else o[6], "X" if o[7] is None else o[7])
    if o[0] == "I":
        return "[{} - {}]".format(fmt(o[1]), fmt(o[2]))
    if o[0] == "D":
        return "{} {}".format(o[1], o[2])
    return repr(o)
