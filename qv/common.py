"""Helpers shared by the checks: calling the library with every source of
nondeterminism owned by the harness (timeout=0: no wall clock; explicit ts)."""
import sys
from datetime import datetime

from .obs import obs, span

_cp = None


def lib():
    """(ctparse function, ctparse_gen function, module ctparse.ctparse)"""
    global _cp
    if _cp is None:
        import ctparse.ctparse  # noqa

        m = sys.modules["ctparse.ctparse"]
        _cp = (m.ctparse, m.ctparse_gen, m)
    return _cp


def ts_of(s):
    if isinstance(s, datetime):
        return s
    return datetime.fromisoformat(s)


def iso(ts):
    return ts.isoformat()


class LibraryRaised(Exception):
    """the library raised out of ctparse()/ctparse_gen(); the runner turns this into a violation of the running
    property (value checks: the asserted result was not delivered) or into a counted skip (checks whose statement
    is only about values that *are* produced) - see ON_LIBRARY_RAISE in the check modules"""

    def __init__(self, api, args, exc):
        import traceback

        tb = traceback.extract_tb(exc.__traceback__)
        self.where = next((f.name for f in reversed(tb) if "/ctparse/" in f.filename), "?")
        self.api = api
        self.call = args
        self.exc = exc
        Exception.__init__(self, "{}{} raised {!r} in {}".format(api, args, exc, self.where))


def parse(text, ts, **kw):
    kw.setdefault("timeout", 0)
    try:
        return lib()[0](text, ts=ts_of(ts), **kw)
    except Exception as e:
        raise LibraryRaised("ctparse", (text, str(ts), {k: v for k, v in kw.items() if k != "scorer"}), e)


def stream(text, ts, **kw):
    kw.setdefault("timeout", 0)
    try:
        return list(lib()[1](text, ts=ts_of(ts), **kw))
    except Exception as e:
        raise LibraryRaised("ctparse_gen", (text, str(ts), {k: v for k, v in kw.items() if k != "scorer"}), e)


def res_obs(r):
    return None if r is None else obs(r.resolution)


def viol(sig, msg, expected=None, observed=None):
    return {"sig": sig, "msg": msg, "expected": expected, "observed": observed}
