"""Helpers shared by the checks: calling the library with every source of
nondeterminism owned by the harness (timeout=0: no wall clock; explicit ts)."""
import sys
from datetime import datetime

from .obs import obs, span

_cp = None


def lib():
    """(ctparse function, ctparse_gen function, module ctparse.ctparse)"""
    global _cp
    if _cp is None:
        import ctparse.ctparse  # noqa

        m = sys.modules["ctparse.ctparse"]
        _cp = (m.ctparse, m.ctparse_gen, m)
    return _cp


def ts_of(s):
    if isinstance(s, datetime):
        return s
    return datetime.fromisoformat(s)


def iso(ts):
    return ts.isoformat()


def parse(text, ts, **kw):
    kw.setdefault("timeout", 0)
    return lib()[0](text, ts=ts_of(ts), **kw)


def stream(text, ts, **kw):
    kw.setdefault("timeout", 0)
    return list(lib()[1](text, ts=ts_of(ts), **kw))


def res_obs(r):
    return None if r is None else obs(r.resolution)


def viol(sig, msg, expected=None, observed=None):
    return {"sig": sig, "msg": msg, "expected": expected, "observed": observed}
