"""Canonical fingerprint of all module-level mutable state of the ctparse package:
module globals, class attributes, function defaults and closure cells, the rule
registry, the compiled patterns and the scorer's model tables.  Containers are
canonicalised order-free; identity (id()) never enters the fingerprint, so equal
states have equal fingerprints within and across processes (given PYTHONHASHSEED)."""
import hashlib
import sys
import types


_PRIM = (bool, int, float, str, bytes, type(None))


def _h(b):
    return hashlib.blake2b(b, digest_size=8).hexdigest()


class FP:
    def __init__(self):
        self.memo = {}
        self.keep = []  # keeps every visited object alive: ids of temporaries must not be reused while the memo exists

    def canon(self, x, depth=0):
        t = type(x)
        if x is None or t in (bool, int, float, str, bytes, complex):
            return repr(x)
        i = id(x)
        if i in self.memo:
            return self.memo[i]
        self.memo[i] = "<cycle:%s>" % t.__name__
        self.keep.append(x)
        if depth > 40:
            r = "<deep>"
        elif t in (list, tuple) and len(x) > 64 and all(type(e) in _PRIM for e in x):
            # fast path for big flat tables (model likelihoods): in-process hash of the exact contents
            r = "%s#%d:%x" % (t.__name__, len(x), hash(tuple((type(e).__name__, e) for e in x)) & 0xFFFFFFFFFFFFFFFF)
        elif t is dict and len(x) > 64 and all(type(k) in _PRIM and type(e) in _PRIM for k, e in x.items()):
            r = "dict#%d:%x" % (len(x), hash(frozenset((type(k).__name__, k, type(e).__name__, e) for k, e in x.items())) & 0xFFFFFFFFFFFFFFFF)
        elif t in (list, tuple):
            r = t.__name__ + "[" + ",".join(self.canon(e, depth + 1) for e in x) + "]"
        elif t in (set, frozenset):
            r = "set{" + ",".join(sorted(self.canon(e, depth + 1) for e in x)) + "}"
        elif t is dict or isinstance(x, dict):
            r = t.__name__ + "{" + ",".join(sorted(self.canon(k, depth + 1) + ":" + self.canon(v, depth + 1) for k, v in list(x.items()))) + "}"
        elif isinstance(x, types.ModuleType):
            r = "<module %s>" % x.__name__
        elif isinstance(x, (types.FunctionType,)):
            cells = []
            for c in x.__closure__ or ():
                try:
                    cells.append(self.canon(c.cell_contents, depth + 1))
                except ValueError:
                    cells.append("<empty>")
            r = "fn(%s@%s:%d;defaults=%s;kw=%s;cells=[%s];attrs=%s)" % (
                x.__qualname__,
                (x.__code__.co_filename or "").rsplit("/", 1)[-1],
                x.__code__.co_firstlineno,
                self.canon(x.__defaults__, depth + 1),
                self.canon(x.__kwdefaults__, depth + 1),
                ",".join(cells),
                self.canon(dict(x.__dict__), depth + 1) if x.__dict__ else "",
            )
        elif isinstance(x, type):
            if (getattr(x, "__module__", "") or "").startswith("ctparse"):
                attrs = {k: v for k, v in vars(x).items() if not (k.startswith("__") and k.endswith("__")) or k in ("__defaults__",)}
                r = "class(%s.%s){%s}" % (x.__module__, x.__qualname__, self.canon(attrs, depth + 1))
            else:
                r = "<class %s.%s>" % (getattr(x, "__module__", "?"), x.__qualname__)
        elif t.__name__ == "Pattern":
            r = "pattern(%r,%r)" % (x.pattern, x.flags)
        elif t.__name__ in ("Match",):
            r = "match(%r,%r)" % (x.span(), x.group(0))
        elif isinstance(x, (types.BuiltinFunctionType, types.MethodType, types.MethodDescriptorType, property, staticmethod, classmethod)):
            f = getattr(x, "__func__", None) or getattr(x, "fget", None)
            r = "<%s %s>" % (t.__name__, self.canon(f, depth + 1) if isinstance(f, types.FunctionType) else getattr(x, "__name__", ""))
        elif (getattr(t, "__module__", "") or "").startswith("ctparse") or t.__module__ in ("random", "enum") or hasattr(x, "__dict__") and (getattr(t, "__module__", "") or "").startswith(("ctparse", "qv")):
            if t.__module__ == "random":
                r = "random(%s)" % _h(repr(x.getstate()).encode())
            elif isinstance(x, __import__("enum").Enum):
                r = "enum(%s.%s)" % (t.__name__, x.name)
            else:
                r = "obj(%s.%s){%s}" % (t.__module__, t.__qualname__, self.canon(dict(getattr(x, "__dict__", {})), depth + 1))
        else:
            # foreign object (logger, typing helpers, datetime, ...): type name and repr if it is stable
            r = "<%s.%s>" % (getattr(t, "__module__", "?"), t.__qualname__)
            if t.__module__ in ("datetime",):
                r += repr(x)
        if len(r) > 200:
            r = "#" + _h(r.encode("utf-8", "surrogatepass")) + ":" + r[:40]
        self.memo[i] = r
        return r


def module_state(extra=()):
    """{name: canonical digest} for every ctparse.* module's globals (+ extra named objects, e.g. caller-side scorers)"""
    fp = FP()
    out = {}
    for name in sorted(sys.modules):
        if name == "ctparse" or name.startswith("ctparse."):
            mod = sys.modules[name]
            if mod is None:
                continue
            g = {k: v for k, v in vars(mod).items() if k not in ("__builtins__", "__cached__", "__loader__", "__spec__", "__doc__")}
            for k in sorted(g):
                out[name + "." + k] = fp.canon(g[k])
    for label, obj in extra:
        out["extra." + label] = fp.canon(obj)
    return out


def digest(state):
    return _h(repr(sorted(state.items())).encode("utf-8", "surrogatepass"))


def diff(a, b):
    return sorted(k for k in set(a) | set(b) if a.get(k) != b.get(k))


_PRIMS = (bool, int, float, str, bytes, type(None))


class Watch:
    """Leaves of the shared state of ctparse.* discovered once (module globals, class attributes, function attributes and
    defaults, attributes of module-level instances down to the model tables), re-read cheaply at every line event."""

    def __init__(self):
        self._fast = None
        self.leaves = []  # (owner mapping or None, key, fixed object or None)
        self.owners = []
        seen = set()

        def visit(owner, key, v, depth):
            self.leaves.append((owner, key))
            if depth <= 0 or id(v) in seen:
                return
            t = type(v)
            if t in _PRIMS:
                return
            if t in (list, dict, set, bytearray, tuple):
                # elements of small containers are watched too (registry -> (wrapper, predicate list), model -> tables)
                if t in (list, tuple, dict) and len(v) <= 200 and id(v) not in seen:
                    seen.add(id(v))
                    items = v.items() if t is dict else enumerate(v)
                    holder = v if t is not tuple else dict(enumerate(v))
                    for kk, w in list(items):
                        if type(w) not in _PRIMS:
                            visit(holder, kk, w, depth - 1)
                return
            seen.add(id(v))
            sub = None
            if isinstance(v, type) and (getattr(v, "__module__", "") or "").startswith("ctparse"):
                sub = v.__dict__
            elif isinstance(v, types.FunctionType) and (getattr(v, "__module__", "") or "").startswith("ctparse"):
                sub = v.__dict__
                if v.__defaults__:
                    for i, w in enumerate(v.__defaults__):
                        if type(w) in (list, dict, set):
                            self.leaves.append(({i: w}, i))
            elif (getattr(t, "__module__", "") or "").startswith("ctparse") and hasattr(v, "__dict__"):
                sub = v.__dict__
            if sub is not None:
                self.owners.append(sub)
                for a in list(sub.keys()):
                    if not (a.startswith("__") and a.endswith("__")):
                        visit(sub, a, sub[a], depth - 1)

        for name in sorted(sys.modules):
            if name == "ctparse" or name.startswith("ctparse."):
                mod = sys.modules[name]
                if mod is None:
                    continue
                d = vars(mod)
                self.owners.append(d)
                for k in list(d.keys()):
                    visit(d, k, d[k], 4)

    def digest(self, fast=False):
        """fast=True: only containers, scalars and namespace sizes (mutation and counters); the identity of bound functions,
        classes and other objects (rebinding) is part of the full digest only"""
        acc = [len(o) for o in self.owners]
        ap = acc.append
        if fast:
            if self._fast is None:
                self._fast = [(o, k) for o, k in self.leaves if k in o and (type(o[k]) in (list, dict, set) or type(o[k]) in _PRIMS)]
            leaves = self._fast
        else:
            leaves = self.leaves
        for owner, key in leaves:
            try:
                v = owner[key]
            except KeyError:
                ap(None)
                continue
            t = type(v)
            if t is list or t is set:
                n = len(v)
                ap((id(v), n, tuple(w if type(w) in _PRIMS else id(w) for w in v) if n <= 16 else 0))
            elif t is dict:
                n = len(v)
                ap((id(v), n, tuple((kk, w if type(w) in _PRIMS else id(w)) for kk, w in v.items()) if n <= 16 else 0))
            elif t in _PRIMS:
                ap(v)
            else:
                ap(id(v))
        return hash(tuple(acc))


_watch = None


def shallow_digest(fast=False):
    global _watch
    if _watch is None:
        _watch = Watch()
    return _watch.digest(fast)
