"""Reference calendar arithmetic: only datetime.date ordinals and the Gregorian rules
written out here; never dateutil (which is what the code under test uses)."""
from datetime import date, datetime, timedelta


def is_leap(y):
    return y % 4 == 0 and (y % 100 != 0 or y % 400 == 0)


def month_len(y, m):
    if m == 2:
        return 29 if is_leap(y) else 28
    return 30 if m in (4, 6, 9, 11) else 31


def valid(y, m, d):
    return 1 <= m <= 12 and 1 <= d <= month_len(y, m)


def add_days(d, n):
    return date.fromordinal(d.toordinal() + n)


def last_of_month(d):
    return date(d.year, d.month, month_len(d.year, d.month))


def last_of_year(d):
    return date(d.year, 12, 31)


def next_weekday_strict(d, wd):
    """first date with weekday wd (0=Mon) strictly after d"""
    k = (wd - d.weekday()) % 7
    return add_days(d, k if k else 7)


def next_weekday_from(d, wd):
    """first date with weekday wd on or after d"""
    return add_days(d, (wd - d.weekday()) % 7)


def next_dom_strict(d, dom):
    """first date strictly after d whose day-of-month is dom (skipping months without it)"""
    y, m = d.year, d.month
    for _ in range(50):
        if valid(y, m, dom):
            c = date(y, m, dom)
            if c > d:
                return c
        m += 1
        if m == 13:
            y, m = y + 1, 1
    raise AssertionError


def next_doy_from(d, month, dom):
    """first date on or after d with that month/day (skipping years without it)"""
    y = d.year
    for _ in range(12):
        if valid(y, month, dom):
            c = date(y, month, dom)
            if c >= d:
                return c
        y += 1
    raise AssertionError


def add_months(d, n):
    """calendar month addition with clipping to the month length"""
    k = d.year * 12 + (d.month - 1) + n
    y, m = divmod(k, 12)
    m += 1
    return date(y, m, min(d.day, month_len(y, m)))


def cycle(y0, y1):
    d = date(y0, 1, 1).toordinal()
    e = date(y1, 12, 31).toordinal()
    return [date.fromordinal(o) for o in range(d, e + 1)]


EDGE_TS = [
    datetime(1970, 1, 1, 0, 0, 0),
    datetime(1999, 12, 31, 23, 59, 59),
    datetime(2000, 2, 29, 8, 15, 0),
    datetime(2018, 3, 7, 12, 43, 0),
    datetime(2019, 12, 31, 23, 59, 30, 500000),
    datetime(2020, 2, 28, 0, 0, 0),
    datetime(2020, 2, 29, 12, 0, 1),
    datetime(2021, 1, 30, 17, 5, 0),
    datetime(2024, 2, 29, 23, 59, 59, 999999),
    datetime(2099, 12, 31, 6, 30, 0),
    datetime(2100, 2, 28, 12, 43, 0),
    datetime(2100, 12, 31, 23, 59, 59),
]
