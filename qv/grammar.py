"""Canonical sentences of the specification grammar, one or more per surface family.
Every form here is judged for its *meaning* by the family's own check (C03-C08, C20);
the relational checks (C09, C10, C11) only compare the library with itself on them."""

FAMILIES = [
    ("relday", ["today", "heute", "tomorrow", "morgen", "übermorgen", "yesterday", "vorgestern", "now", "eom", "end of the year"]),
    ("weekday", ["monday", "freitag", "this friday", "am montag", "next tuesday", "nächsten mittwoch", "friday next week"]),
    ("dom", ["5th", "the 5th", "am 5.", "31."]),
    ("doy", ["12.5.", "12. mai", "may 12", "12th of may", "29.2."]),
    ("pod", ["morning", "evening", "abends", "night"]),
    ("absdate", ["8.5.2018", "08/05/2018", "8-5-2018", "8.5.18", "8. mai 2018", "may 8th 2018", "8th of may 2018"]),
    ("clock", ["14:30", "8pm", "8 uhr", "20h", "1430", "8:30 am", "12 am", "eight", "acht uhr", "quarter past eight", "halb acht", "viertel vor neun", "5 o'clock", "17h"]),
    ("range", ["14:00-15:30", "9:00 to 17:00", "tomorrow 9 to 11", "between 3pm and 4pm", "von 9:00 bis 17:00", "8.5.2018 - 10.5.2018", "friday 8pm-9pm", "23:30-3:35"]),
    ("bound", ["before 5pm", "after monday", "bis 8.5.2018", "not before 17:00", "ab morgen"]),
    ("duration", ["3 days", "two weeks", "half an hour", "eine nacht", "20 minutes", "99999999999 days", "5000000 months"]),
    ("fordur", ["8.5.2018 for 3 days", "tomorrow for 2 nights", "3 days 15.11.2018-18.11.2018"]),
    ("daytime", ["monday 14:30", "tomorrow at 8pm", "8pm tomorrow", "am montag um 15 uhr", "8.5.2018 14:30", "heute abend", "tomorrow morning", "monday evening", "12.5. 8 uhr", "tomorrow 5 o'clock", "8.5.2018 17h"]),
]


def sentences():
    out = []
    for fam, ss in FAMILIES:
        for s in ss:
            out.append((fam, s))
    return out
