"""Shared runner: enumerates a check's finite case space, replays every case
against the real code in a 16-process pool, matches violations against the
committed known-findings file, writes evidence + replay files, sets exit code.

A check module provides

    PID, LEVEL, RULE, ASSUMPTIONS          constants
    plan(tier, seed) -> dict               {"space": {...cardinalities...}, "cases": iterable}
    run_case(case) -> dict                 {"o": outcome key, "nt": bool, "v": [violation...], "skip": reason|None,
                                            "st": {counter name: int}}   (all optional except "o")
    finalize(agg, tier, seed) -> None      optional, main process; may add coverage keys / violations

A violation is {"sig": {...}, "msg": str, "case": case, "expected": ..., "observed": ...}.
Exit codes: 0 property held (known findings allowed), 1 violation, 2 harness error.
"""
import collections
import hashlib
import importlib
import itertools
import json
import multiprocessing as mp
import os
import sys
import time
import traceback

HERE = os.path.dirname(os.path.dirname(os.path.abspath(__file__)))
REPO = os.environ.get("QV_REPO", "/repo")
NPROC = int(os.environ.get("QV_NPROC", "16"))
# evidence/replays go to /verif unless a mutation-demo run redirects them (QV_OUT), so that a run
# against a scratch tree never overwrites the evidence of the real tree
OUT = os.environ.get("QV_OUT", HERE)
MAX_VIOL_KEEP = 400


def setup_import_path():
    """Make `import ctparse` resolve to the working tree under test."""
    if REPO not in sys.path[:1]:
        sys.path.insert(0, REPO)
    import logging
    import warnings

    warnings.filterwarnings("ignore")
    logging.disable(logging.CRITICAL)


def _jsonable(x):
    if isinstance(x, (str, int, float, bool)) or x is None:
        return x
    if isinstance(x, (list, tuple)):
        return [_jsonable(i) for i in x]
    if isinstance(x, dict):
        return {str(k): _jsonable(v) for k, v in x.items()}
    return repr(x)


_mod = None


def _winit(modname):
    global _mod
    setup_import_path()
    _mod = importlib.import_module(modname)
    if hasattr(_mod, "init_worker"):
        _mod.init_worker()


def _case_hash(case):
    return int.from_bytes(hashlib.blake2b(repr(case).encode("utf-8", "surrogatepass"), digest_size=8).digest(), "big")


def _run_isolated(case):
    """run_case in a forked child of this worker: the case starts from the worker's pristine state (nothing an earlier case of the
    chunk left in the library's modules can mask or cause what this case observes).  The child's result comes back pickled over a pipe."""
    import pickle

    rfd, wfd = os.pipe()
    pid = os.fork()
    if pid == 0:
        code = 0
        try:
            os.close(rfd)
            try:
                payload = ("r", _mod.run_case(case))
            except BaseException as e:  # classified by the parent exactly like an in-process exception
                frames = traceback.extract_tb(e.__traceback__)
                inner = getattr(e, "exc", None)
                if inner is not None:
                    frames = frames + traceback.extract_tb(inner.__traceback__)
                payload = ("x", [(f.filename, f.name) for f in frames], type(inner if inner is not None else e).__name__, repr(inner if inner is not None else e), traceback.format_exc())
            with os.fdopen(wfd, "wb") as fd:
                pickle.dump(payload, fd, protocol=4)
        except BaseException:
            code = 3
        finally:
            os._exit(code)
    os.close(wfd)
    with os.fdopen(rfd, "rb") as fd:
        data = fd.read()
    _, status = os.waitpid(pid, 0)
    if not data:
        raise RuntimeError("isolated case died without a result (exit status {})".format(status))
    payload = pickle.loads(data)
    if payload[0] == "r":
        return payload[1]
    _, frames, exc_name, exc_repr, tb = payload
    lib = [name for fn, name in frames if fn.startswith(REPO + "/ctparse/")]
    if not lib:
        raise RuntimeError("harness error in isolated case:\n" + tb)
    if getattr(_mod, "ON_LIBRARY_RAISE", "violation") == "skip":
        return {"o": "library-raised", "skip": "the library raised on this case (totality is C01's statement; nothing to judge here)", "nt": False}
    return {"o": "library-raised", "nt": True, "v": [{"sig": {"kind": "library_raised", "exc": exc_name, "where": lib[-1]}, "msg": "library raised {} in {} on case {!r}".format(exc_repr, lib[-1], case)[:500]}]}


_ISOLATE = False


def _wrun(arg):
    idx, chunk, want_hash = arg
    out = {
        "idx": idx,
        "n": 0,
        "nt": 0,
        "nth": [],
        "outcomes": collections.Counter(),
        "skip": collections.Counter(),
        "st": collections.Counter(),
        "viol": [],
        "keys": set(),
        "vcount": collections.Counter(),
        "samples": [],
        "err": None,
    }
    for pos, case in enumerate(chunk):
        try:
            try:
                r = _run_isolated(case) if _ISOLATE else _mod.run_case(case)
            except Exception as le:
                import traceback as _tb

                frames = _tb.extract_tb(le.__traceback__)
                inner = getattr(le, "exc", None)
                if inner is not None:
                    frames = frames + _tb.extract_tb(inner.__traceback__)
                lib_frames = [f for f in frames if f.filename.startswith(REPO + "/ctparse/")]
                if not lib_frames:
                    raise  # a bug of the harness itself
                exc = inner if inner is not None else le
                where = lib_frames[-1].name
                if getattr(_mod, "ON_LIBRARY_RAISE", "violation") == "skip":
                    r = {"o": "library-raised", "skip": "the library raised on this case (totality is C01's statement; nothing to judge here)", "nt": False}
                else:
                    r = {"o": "library-raised", "nt": True, "v": [{"sig": {"kind": "library_raised", "exc": type(exc).__name__, "where": where}, "msg": "library raised {!r} in {} on case {!r}".format(exc, where, case)[:500]}]}
        except BaseException as e:  # harness error: never reported as a VIOLATION
            out["err"] = "harness error on case {!r}: {}\n{}".format(case, e, traceback.format_exc())
            break
        out["n"] += 1
        if r.get("skip"):
            out["skip"][r["skip"]] += 1
        if r.get("nt"):
            out["nt"] += 1
            if want_hash:
                out["nth"].append(_case_hash(case))
            if len(out["samples"]) < 2:
                out["samples"].append({"case": _jsonable(case), "outcome": _jsonable(r.get("o"))})
        if r.get("keys"):
            out["keys"].update(r["keys"])
        o = r.get("o")
        if o is not None:
            if len(out["outcomes"]) < 5000 or o in out["outcomes"]:
                out["outcomes"][o if isinstance(o, str) else repr(o)] += 1
        for k, v in (r.get("st") or {}).items():
            if k.startswith("max_"):
                out["st"][k] = max(out["st"][k], v)
            else:
                out["st"][k] += v
        for v in r.get("v") or ():
            key = json.dumps(_jsonable(v.get("sig", {})), sort_keys=True)
            out["vcount"][key] += 1
            if out["vcount"][key] <= 2:
                v = dict(v)
                v.setdefault("case", case)
                v["_order"] = (idx, pos)
                v["_key"] = key
                out["viol"].append(_jsonable(v))
    return out


def _chunks(it, size):
    it = iter(it)
    i = 0
    while True:
        c = list(itertools.islice(it, size))
        if not c:
            return
        yield i, c
        i += 1


def load_known(pid):
    p = os.path.join(HERE, "known_findings.json")
    if not os.path.exists(p):
        return []
    with open(p, encoding="utf-8") as fd:
        data = json.load(fd)
    return [e for e in data.get("findings", []) if e.get("property") == pid and e.get("status") == "known"]


def sig_matches(match, sig):
    for k, want in match.items():
        have = sig.get(k, None)
        if isinstance(want, dict):
            if "in" in want and have not in want["in"]:
                return False
            if "ge" in want and not (have is not None and have >= want["ge"]):
                return False
            if "le" in want and not (have is not None and have <= want["le"]):
                return False
            if "prefix" in want and not (isinstance(have, str) and have.startswith(want["prefix"])):
                return False
        elif have != want:
            return False
    return True


class Agg:
    def __init__(self):
        self.n = 0
        self.nt = 0
        self.nth = set()
        self.outcomes = collections.Counter()
        self.skip = collections.Counter()
        self.st = collections.Counter()
        self.viol = []
        self.keys = set()  # union of per-case "keys" (e.g. distinct explored states)
        self.vcount = collections.Counter()
        self.vkept = collections.Counter()
        self.samples = []
        self.extra = {}  # extra coverage keys
        self.caps_hit = []

    def add_violation(self, sig, msg, case=None, expected=None, observed=None):
        key = json.dumps(_jsonable(sig), sort_keys=True)
        self.vcount[key] += 1
        self.viol.append(
            _jsonable({"sig": sig, "msg": msg, "case": case, "expected": expected, "observed": observed, "_order": (1 << 60, len(self.viol)), "_key": key})
        )


def run_module(modname, tier, seed, replay=None):
    setup_import_path()
    t0 = time.time()
    mod = importlib.import_module(modname)
    pid = mod.PID
    if replay:
        return _replay(mod, replay)
    if hasattr(mod, "init_worker"):
        mod.init_worker()
    plan = mod.plan(tier, seed)
    cases = plan["cases"]
    chunk = plan.get("chunk", 64)
    agg = Agg()
    want_hash = plan.get("hash_distinct", True)
    err = None
    nproc = min(NPROC, plan.get("nproc", NPROC))
    global _ISOLATE
    _ISOLATE = bool(plan.get("isolate"))  # inherited by the forked workers
    if nproc <= 1:
        _winit(modname)
        results = (_wrun((i, c, want_hash)) for i, c in _chunks(cases, chunk))
        pool = None
    else:
        ctx = mp.get_context("fork")
        pool = ctx.Pool(nproc, initializer=_winit, initargs=(modname,), maxtasksperchild=plan.get("maxtasksperchild"))
        results = pool.imap_unordered(_wrun, ((i, c, want_hash) for i, c in _chunks(cases, chunk)))
    try:
        for out in results:
            if out["err"]:
                err = out["err"]
                break
            agg.n += out["n"]
            agg.nt += out["nt"]
            agg.nth.update(out["nth"])
            agg.outcomes.update(out["outcomes"])
            agg.skip.update(out["skip"])
            for k, v in out["st"].items():
                if k.startswith("max_"):
                    agg.st[k] = max(agg.st[k], v)
                else:
                    agg.st[k] += v
            agg.keys.update(out["keys"])
            agg.vcount.update(out["vcount"])
            for v in out["viol"]:
                k = v.get("_key")
                if agg.vkept[k] < 3 or len(agg.viol) < 200:
                    agg.vkept[k] += 1
                    agg.viol.append(v)
            if len(agg.samples) < 6 and out["samples"]:
                agg.samples.extend(out["samples"][:1])
    finally:
        if pool is not None:
            pool.terminate()
            pool.join()
    if err:
        print("HARNESS-ERROR property={} {}".format(pid, err))
        return 2
    if hasattr(mod, "finalize"):
        try:
            mod.finalize(agg, tier, seed)
        except BaseException as e:
            print("HARNESS-ERROR property={} finalize: {}\n{}".format(pid, e, traceback.format_exc()))
            return 2
    return _report(mod, plan, agg, tier, seed, want_hash, time.time() - t0)


def _report(mod, plan, agg, tier, seed, want_hash, wall):
    pid = mod.PID
    known = load_known(pid)
    agg.viol.sort(key=lambda v: tuple(v.get("_order", (0, 0))))
    known_hits = collections.OrderedDict()
    fresh = []
    for v in agg.viol:
        hit = None
        for i, e in enumerate(known):
            if sig_matches(e.get("match", {}), v.get("sig", {})):
                hit = i
                break
        if hit is None:
            fresh.append(v)
        else:
            known_hits.setdefault(hit, []).append(v)
    for i, vs in known_hits.items():
        e = known[i]
        cnt = sum(agg.vcount.get(k, 0) for k in {v.get("_key") for v in vs}) or len(vs)
        print("KNOWN-FINDING: property={} {} [{} case(s) this run, e.g. {}]".format(pid, e.get("what", ""), cnt, json.dumps(vs[0].get("case"), ensure_ascii=False)[:160]))
    # replay files for fresh violations: group by signature, keep the first (simplest) of each group
    rdir = os.path.join(OUT, "replays", pid)
    if os.path.isdir(rdir):
        for f in os.listdir(rdir):
            if f.endswith(".json"):
                os.unlink(os.path.join(rdir, f))
    groups = collections.OrderedDict()
    for v in fresh:
        key = v.get("_key") or json.dumps(v.get("sig", {}), sort_keys=True)
        groups.setdefault(key, []).append(v)
    n_lines = 0
    for gi, (key, vs) in enumerate(groups.items()):
        if gi >= 40:
            break
        os.makedirs(rdir, exist_ok=True)
        v = dict(vs[0])
        v.pop("_order", None)
        v.pop("_key", None)
        cnt = agg.vcount.get(key, len(vs))
        path = os.path.join(rdir, "{:03d}.json".format(gi))
        with open(path, "w", encoding="utf-8") as fd:
            json.dump({"property": pid, "tier": tier, "module": mod.__name__, "count_same_signature": cnt, **v}, fd, indent=1, ensure_ascii=False)
        print("VIOLATION property={} replay={}  # {} x{}".format(pid, path, (v.get("msg") or "")[:300], cnt))
        n_lines += 1
    if len(groups) > 40:
        print("... {} further violation signatures not written".format(len(groups) - 40))
    distinct_nt = len(agg.nth) if want_hash else agg.nt
    cov = {
        "evaluations": agg.n,
        "distinct_nontrivial": distinct_nt,
        "rule": mod.RULE + (" Distinctness measured by hashing every non-trivial case." if want_hash else " Cases are distinct by construction (every dimension list is de-duplicated before the product is formed)."),
        "samples": agg.samples[:6] or [{"note": "no non-trivial case"}],
        "exhaustive": not agg.caps_hit,
        "space": plan.get("space", {}),
        "skipped": dict(agg.skip),
        "distinct_outcomes": len(agg.outcomes),
        "top_outcomes": [[k, n] for k, n in agg.outcomes.most_common(8)],
        "counters": dict(agg.st),
        "caps_hit": agg.caps_hit,
        "known_findings_matched": [{"what": known[i].get("what"), "cases": len(vs)} for i, vs in known_hits.items()],
        "repo": REPO,
    }
    cov.update(agg.extra)
    ev = {
        "property_id": pid,
        "tier": tier,
        "seed": seed,
        "level": mod.LEVEL,
        "coverage": cov,
        "assumptions": list(getattr(mod, "ASSUMPTIONS", [])),
        "wall_s": round(wall, 2),
        "violations": sum(agg.vcount.get(k, len(vs)) for k, vs in groups.items()),
    }
    os.makedirs(os.path.join(OUT, "evidence"), exist_ok=True)
    with open(os.path.join(OUT, "evidence", pid + ".json"), "w", encoding="utf-8") as fd:
        json.dump(_jsonable(ev), fd, indent=1, ensure_ascii=False)
    print(
        "{} tier={} seed={} evaluations={} nontrivial={} outcomes={} skipped={} violations={} known={} wall={:.1f}s".format(
            pid, tier, seed, agg.n, distinct_nt, len(agg.outcomes), sum(agg.skip.values()), ev["violations"], sum(len(v) for v in known_hits.values()), wall
        )
    )
    return 1 if fresh else 0


def _replay(mod, path):
    with open(path, encoding="utf-8") as fd:
        rec = json.load(fd)
    if hasattr(mod, "init_worker"):
        mod.init_worker()
    case = rec["case"]
    if hasattr(mod, "case_from_json"):
        case = mod.case_from_json(case)
    if hasattr(mod, "replay_case"):
        r = mod.replay_case(case, rec)
    else:
        r = mod.run_case(case)
    vs = r.get("v") or []
    print("replay {} case={}".format(mod.PID, json.dumps(_jsonable(case), ensure_ascii=False)[:400]))
    print("outcome: {}".format(_jsonable(r.get("o"))))
    for v in vs:
        print("  still violates: {}".format(v.get("msg")))
    if vs:
        print("VIOLATION property={} replay={}".format(mod.PID, path))
        return 1
    print("no violation on replay")
    return 0
