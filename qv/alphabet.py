"""Token alphabet for the string-space checks (C01, C02, C14, C15).

Built mechanically: for each registered pattern, the distinct strings it matches
in the bundled corpus (shortest, longest, then evenly spread by length; <= per_pattern each), plus a fixed hazard
list (impossible dates, boundary clocks, stacked modifiers, empty/label-only
text, odd Unicode)."""
import functools

HAZARDS = [
    "", " ", "31.04.", "31.04.2019", "30.2.2019", "29.02.2019", "29.02.1900", "29.02.2000", "29.2.", "31.11", "31.6.", "0", "00", "24:00", "12am", "12 pm", "0000", "2400", "1200",
    "00:00", "23:59", "12:15am", "early", "late", "very early", "sehr spät", "früh", "morning", "#", "#1", "#fun", "#p_1-x", "#\\", "#\\home", "a#\\1 b", "#*x", "#(", "#[a", "#+", "#?", "\\", "#.#", "-", "a", "an", "of", "am", "pm",
    "gargelbabel", "\u00df", "\u0130", "e\u0301", "\U0001f600", "\x00", "\u00a0", "\u2013", "9-5", "13-12", "23:30-3:35", "1", "31.", "32", "for", "für", "von", "bis",
    "between", "and", "next", "this", "half", "quarter past", "29th", "feb", "2100", "1899", "99", "1 day", "3 nights", "0 days", "einunddreissig tage",
    "mon", "so", "on", "at", "ab", "not before", "nicht nach", "spätestens", "noon", "midnight", "8 in the evening",
    # numerals just outside (and on) the range of their field, in every clock / date notation
    "24 uhr", "24h", "24 o'clock", "24:30", "10:60", "32.1.", "1.13.", "32nd",
    # decimal digits outside ASCII: Arabic-Indic, fullwidth, and digits of Unicode 16 (the regex module's tables may be newer than the interpreter's)
    "\u0663 days", "\U00010d43 days", "\U000116d3 uhr",
    # characters whose compatibility-normalised form has another length (offsets behind them must stay offsets into the normalised text)
    "lunch\u2026", "\ufb01x", "\u00bd", "Bu\u0308ro",
    # letters that only case-FOLD to an ASCII letter (long s, Kelvin sign): the case-insensitive patterns accept them, str.lower() does not change them
    "5. \u017feptember 2020", "\u017fep", "augu\u017ft", "o\u212atober", "\u017fonntag",
]

HAZARD_CORE = [
    "", "31.04.2019", "29.2.", "31.", "0", "24:00", "12am", "0000", "early", "very early", "morning", "#fun", "-", "an", "am", "9-5", "23:30-3:35",
    "for", "1 day", "feb", "mon", "at", "ab", "not before", "noon", "2018", "tomorrow", "8", "5pm", "between", "and", "3 nights", "\U00010d43 days", "24 uhr",
]


@functools.lru_cache(None)
def corpus_sentences():
    from ctparse.time.corpus import corpus

    out = []
    for target, ts, tests in corpus:
        for t in tests:
            out.append((t, ts))
    return tuple(dict.fromkeys(out))


@functools.lru_cache(None)
def pattern_tokens(per_pattern=2):
    """{pattern id: [token,...]} distinct corpus substrings matched by each pattern, shortest first"""
    import sys
    import ctparse.ctparse  # noqa
    from ctparse import rule as RU

    m = sys.modules["ctparse.ctparse"]
    found = {rid: set() for rid in RU._regex}
    for text, _ in corpus_sentences():
        norm = m._preprocess_string(text)
        for rm in m._match_regex(norm, RU._regex):
            t = norm[rm.mstart : rm.mend].strip().lower()
            if t:
                found[rm.id].add(t)
    out = {}
    for rid, toks in found.items():
        srt = sorted(toks, key=lambda t: (len(t), t))
        # shortest, longest, then evenly spread in between (diverse shapes, deterministic)
        pick = [0, len(srt) - 1, len(srt) // 2, len(srt) // 4, (3 * len(srt)) // 4][:per_pattern]
        out[rid] = [srt[i] for i in dict.fromkeys(i for i in pick if 0 <= i < len(srt))]
    return out


@functools.lru_cache(None)
def tokens(per_pattern=2, hazards="all"):
    toks = []
    for rid, ts in sorted(pattern_tokens(per_pattern).items()):
        toks.extend(ts)
    toks.extend(HAZARDS if hazards == "all" else HAZARD_CORE)
    return tuple(dict.fromkeys(toks))


def texts_k1(per_pattern=3):
    return list(tokens(per_pattern))


def texts_k2(per_pattern=2, glued="hazards"):
    """all ordered pairs, blank-joined; glued pairs for hazard x hazard (or all)"""
    toks = tokens(per_pattern)
    out = []
    for a in toks:
        for b in toks:
            out.append(a + " " + b)
    if glued == "all":
        gl = toks
    elif glued == "core":
        gl = tuple(dict.fromkeys(HAZARD_CORE))
    else:
        gl = tuple(t for t in toks if t in set(HAZARDS))
    for a in gl:
        for b in gl:
            out.append(a + b)
    return list(dict.fromkeys(out))


def texts_k3_core():
    toks = tuple(dict.fromkeys(HAZARD_CORE))
    out = []
    for a in toks:
        for b in toks:
            for c in toks:
                out.append(" ".join((a, b, c)))
    return list(dict.fromkeys(out))
