"""Deterministic cooperative scheduler for real threads running library code.

Each thread owns a semaphore (the baton).  A sys.settrace hook installed in every
thread turns each 'call' (and, at line granularity, each 'line') event in a frame
of the package under test into a scheduling point.  Frames of other packages
(logging, regex, dateutil) are not traced, so their internal locks are never held
across a switch.  A schedule is {(thread, k): target}: at its k-th scheduling point
`thread` hands the baton to `target` (a preemption, since `thread` is still
runnable).  When a thread finishes, the baton goes to the lowest-numbered
unfinished thread.  'No enabled thread' within the horizon is reported as deadlock.
"""
import sys
import threading


class Deadlock(Exception):
    pass


def run(bodies, prefix, granularity="call", first=0, preempts=None, horizon_s=60.0, on_point=None):
    """-> (results, counts).  results[i] = ("ok", value) | ("exc", repr)."""
    preempts = dict(preempts or {})
    n = len(bodies)
    sems = [threading.Semaphore(0) for _ in range(n)]
    done = [False] * n
    results = [None] * n
    counts = [0] * n
    finished = threading.Event()
    taken = []

    def point(me):
        k = counts[me]
        counts[me] = k + 1
        if on_point is not None:
            on_point(me, k)
        tgt = preempts.get((me, k))
        if tgt is not None and not done[tgt] and tgt != me:
            taken.append((me, k, tgt))
            sems[tgt].release()
            sems[me].acquire()

    def mk_tracer(me):
        def loc(frame, event, arg):
            if event == "line":
                point(me)
            return loc

        def glob(frame, event, arg):
            if event == "call" and frame.f_code.co_filename.startswith(prefix):
                point(me)
                return loc if granularity == "line" else None
            return None

        return glob

    def runner(me):
        sems[me].acquire()
        sys.settrace(mk_tracer(me))
        try:
            results[me] = ("ok", bodies[me]())
        except BaseException as e:  # noqa
            results[me] = ("exc", "{}: {}".format(type(e).__name__, e))
        finally:
            sys.settrace(None)
            done[me] = True
            for o in range(n):
                if not done[o]:
                    sems[o].release()
                    break
            else:
                finished.set()

    threads = [threading.Thread(target=runner, args=(i,), daemon=True) for i in range(n)]
    for t in threads:
        t.start()
    sems[first].release()
    if not finished.wait(horizon_s):
        raise Deadlock("no thread finished within the horizon; done={} counts={}".format(done, counts))
    for t in threads:
        t.join(5)
    return results, counts, taken
