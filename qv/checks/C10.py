"""C10 — subject and labels partition the non-time words: nothing invented or leaked.

All arrangements (every permutation, every separator) of <=5 items drawn from inert
words, an ordinary word, valid hashtags and one time expression; each text also
without the expression (no-match path) and without each hashtag."""
import itertools
import re

from .. import grammar
from ..common import lib, parse, viol
from ..obs import obs, fmt

PID = "C10"
LEVEL = "exploration"
RULE = (
    "Items: 2 inert words (computed pool), 1 ordinary word that patterns can touch, 2 valid hashtags (pairs #fun/#p_1-x and #_x1/#Q9: every character class in first and later position), 1 time expression (one per grammar family; thorough: every grammar sentence). "
    "Texts: every permutation of every sub-multiset containing the expression and >=1 other item (<=5 items), joined by each separator of {blank, ', ', tab, ' ; ', newline} and one mixed variant, plus '-' and en-dash between words for hashtag-free texts; "
    "each also with the expression removed (no-match path) and with each hashtag removed.  Oracle: labels == hashtags in order without '#'; no '#' or label text in the subject; subject words are a "
    "subsequence of the input's non-hashtag words; inert words all kept in order; if the returned span covers the expression none of its words is in the subject; removing hashtags changes neither "
    "resolution nor subject; on the no-match path the subject is the blank-joined non-hashtag words.  Non-trivial = text with >=3 items; distinct = distinct texts."
)
ASSUMPTIONS = ["valid hashtags match [A-Za-z_][A-Za-z0-9_-]*; ordinary words contain no hyphen", "hashtags containing a RUN of dashes or a Unicode dash are not used: C11 makes every dash run equivalent to one '-', so '#a--b' legitimately comes back as label 'a-b'", "inert words as in C09"]

TS = "2018-03-07T12:43:00"
SEPS = [" ", ", ", "\t", " ; ", "\n"]
DASH_SEPS = ["-", " \u2013 "]  # only between non-hashtag items ('#a-b' is one hashtag)
TAG_PAIRS = [("#fun", "#p_1-x"), ("#_x1", "#Q9"), ("#fun", "#funny-2")]  # last pair: one hashtag is a prefix of the other  # every character class in first and later position
TAGS = ["#fun", "#p_1-x"]
ORDINARY = "john"


def _inner_words(exprs):
    """[(expression, word)]: word is a token of the expression that no pattern matches when it stands alone"""
    from ..derivation import normalise, all_matches

    out = []
    seen = set()
    for e in exprs:
        for w in e.split(" "):
            if not w.isalpha() or (w in seen):
                continue
            if not all_matches(normalise(w)):
                seen.add(w)
                out.append((e, w))
    return out


def _items(tier):
    from .C09 import inert_pool

    pool = inert_pool()
    w1, w2 = pool[0], pool[1]
    fams = grammar.FAMILIES
    if tier == "quick":
        exprs = [ss[0] for _, ss in fams][:6] + ["friday 8pm-9pm"]
    else:
        # thorough: three sentences per family (the full arrangement product per expression is ~30k texts)
        exprs = [s for _, ss in fams for s in ss[:3]]
    return w1, w2, list(dict.fromkeys(exprs))


def plan(tier, seed):
    w1, w2, exprs = _items(tier)
    exprs_multi = [x for _, ss in grammar.FAMILIES for x in ss if 2 <= len(x.split(" ")) <= 4 and "#" not in x]
    exprs_multi_all = list(exprs_multi)
    if tier == "quick":
        exprs_multi = exprs_multi[::3]

    def gen():
        for pi, (t1, t2) in enumerate(TAG_PAIRS):
            others = [("w", w1), ("w", w2), ("o", ORDINARY), ("t", t1), ("t", t2)]
            if pi == 0:
                others.append(("w", w1))  # the same inert word a second time: every occurrence must be kept
            for e in exprs:
                for k in range(1, 5):
                    for sub in itertools.combinations(others, k):
                        has_tag = any(kind == "t" for kind, _ in sub)
                        if sum(1 for kind, x in sub if x == w1) == 2 and (k > 3 or tier == "quick" and has_tag):
                            continue  # the repeated word: small texts only
                        if pi > 0 and not has_tag:
                            continue
                        if pi == 2 and (sum(1 for kind, _ in sub if kind == "t") < 2 or (tier == "quick" and k > 3)):
                            continue  # the prefix pair matters only when both hashtags are present  # tag-free texts are identical for every tag pair
                        items = list(sub) + [("e", e)]
                        for perm in itertools.permutations(items):
                            seps = SEPS if k >= 3 else SEPS[:2]
                            for sep in seps:
                                yield (tuple(perm), sep)
                            if k >= 2:
                                yield (tuple(perm), "MIX")
                            if not has_tag:
                                for sep in DASH_SEPS:
                                    yield (tuple(perm), sep)
        # a hashtag INSIDE a multi-token expression (between any two of its tokens), with inert words around
        for e in exprs_multi:
            toks = e.split(" ")
            for cut in range(1, len(toks)):
                for tag in ("#fun", "#p_1-x"):
                    inner = " ".join(toks[:cut]) + " " + tag + " " + " ".join(toks[cut:])
                    for items in ([("x", inner)], [("w", w1), ("x", inner)], [("x", inner), ("w", w2)], [("w", w1), ("x", inner), ("w", w2)]):
                        yield (tuple(items) + (("E", e), ("T", tag)), " ")

        # two and three ADJACENT hashtags inside a multi-token expression (what is left behind must still be one blank)
        for e in exprs_multi:
            toks = e.split(" ")
            for cut in range(1, len(toks)):
                for tag in ("#fun #p_1-x", "#a #b #c"):
                    inner = " ".join(toks[:cut]) + " " + tag + " " + " ".join(toks[cut:])
                    yield ((("w", w1), ("x", inner), ("w", w2), ("E", e), ("T", tag)), " ")
        # a word that equals an INNER word of a multi-word pattern match but stands elsewhere in the text and is matched by no pattern on its own
        for e, word in _inner_words(exprs_multi_all):
            for items in ([("w", w1), ("o", word), ("w", w2), ("e", e)], [("e", e), ("w", w1), ("o", word)], [("o", word), ("e", e), ("w", w2)]):
                yield (tuple(items) + (("K", word),), " ")
        # every corpus and grammar expression between two inert words (one arrangement each: the breadth the permutation families lack - slash dates, '1/2 hour', 'ein Monat' ...)
        from .. import alphabet

        seen_e = set(exprs)
        for e in [t for t, _ in alphabet.corpus_sentences()] + [x for _, ss in grammar.FAMILIES for x in ss]:
            if e in seen_e or "#" in e:
                continue
            seen_e.add(e)
            yield ((("w", w1), ("e", e), ("w", w2)), " ")
            yield ((("e", e), ("w", w1), ("t", "#fun")), " ")
        # ... and under relative_match_len below 1 (shorter match sequences survive next to the longest: the subject is built from all of them)
        for e in sorted(seen_e):
            for rml in (0.5, 0.2):
                yield ((("w", w1), ("e", e), ("w", w2), ("R", rml)), " ")
        # two separate expressions with inert words between and behind them (what lies between two matched stretches is not part of either)
        short = ["tomorrow", "saturday", "friday", "monday", "5pm", "8pm", "today", "noon", "12.5.", "may 3rd", "at 9:30", "heute"]
        for e1 in short:
            for e2 in short:
                yield ((("e2", e1), ("w", w1), ("e2", e2), ("w", w2)), " ")
                yield ((("w", w1), ("e2", e1), ("o", ORDINARY), ("w", w2), ("e2", e2)), " ")
        # the same text again in another letter case, straight after the first call in the same process (labels keep their case, the resolution must not care)
        for e in exprs:
            for items in ([("w", w1), ("e", e), ("w", w2)], [("w", w1), ("o", ORDINARY), ("e", e), ("t", "#fun")], [("t", "#Q9"), ("e", e), ("w", w2)]):
                for how in ("title", "upper"):
                    yield (tuple(items) + (("V", how),), " ")

    space = {"expressions": len(exprs), "other_items": 5, "inner_word_cases": len(_inner_words(exprs_multi_all)), "case_variant_sequences": ["title", "upper"], "separators": SEPS + ["mixed"], "inert_words": [w1, w2], "ordinary_word": ORDINARY, "hashtag_pairs": [list(t) for t in TAG_PAIRS], "dash_separators": DASH_SEPS}
    return {"space": space, "cases": gen(), "chunk": 32, "hash_distinct": True}


def _join(parts, sep):
    if sep != "MIX":
        return sep.join(parts)
    out = parts[0]
    for i, p in enumerate(parts[1:]):
        out += SEPS[(i + 1) % len(SEPS)] + p
    return out


def _words(s):
    return [w for w in re.split(r"[\s,;\-]+", s) if w]


_RML = [None]


def _check(text, items, v, sig):
    """oracle on one text; returns (resolution obs, subject)"""
    m = lib()[2]
    r = parse(text, TS) if _RML[0] is None else parse(text, TS, relative_match_len=_RML[0])
    tags = [x for k, x in items if k == "t"]
    inert = [x for k, x in items if k == "w"]
    expr = next((x for k, x in items if k == "e"), None)
    exp_labels = [t[1:] for t in tags]
    if r.labels != exp_labels:
        v.append(viol(dict(sig, kind="labels"), "{!r}: labels {} expected {}".format(text, r.labels, exp_labels), exp_labels, r.labels))
    subj = r.subject
    if not isinstance(subj, str):
        v.append(viol(dict(sig, kind="subject_type"), "{!r}: subject is {!r}".format(text, subj)))
        return obs(r.resolution), subj
    sw = subj.split(" ") if subj else []
    if "#" in subj or any(t[1:] in sw for t in tags):
        v.append(viol(dict(sig, kind="hashtag_in_subject"), "{!r}: subject {!r} contains hashtag text".format(text, subj)))
    input_words = [w for k, x in items if k != "t" for w in _words(x)]
    # subsequence
    it = iter(input_words)
    if not all(any(w == x for x in it) for w in sw):
        v.append(viol(dict(sig, kind="subject_not_subsequence"), "{!r}: subject {!r} is not a subsequence of the input words {}".format(text, subj, input_words)))
    if [w for w in sw if w in inert] != inert:
        v.append(viol(dict(sig, kind="inert_word_lost"), "{!r}: subject {!r} does not keep the inert words {} in order".format(text, subj, inert)))
    if r.resolution is None:
        want = " ".join(input_words)
        if subj != want:
            v.append(viol(dict(sig, kind="no_match_subject"), "{!r}: no resolution, subject {!r} expected {!r}".format(text, subj, want), want, subj))
    elif expr is not None:
        norm = re.sub(" {2,}", " ", re.sub("#[a-zA-Z0-9_-]+", "", m._preprocess_string(text)).strip())
        en = m._preprocess_string(expr)
        pos = norm.find(en)
        res = r.resolution
        if pos >= 0 and res.mstart <= pos and res.mend >= pos + len(en):
            leaked = [w for w in _words(en) if w in sw and w not in [x for k, y in items if k != "e" and k != "t" for x in _words(y)]]
            if leaked:
                v.append(viol(dict(sig, kind="expression_word_in_subject"), "{!r}: subject {!r} contains {} although the resolution spans the expression".format(text, subj, leaked)))
    return obs(r.resolution), subj


def _inner_case(items):
    """hashtag between two tokens of the expression: labels = [tag]; resolution and subject as without the tag"""
    m = lib()[2]
    e = next(x for k, x in items if k == "E")
    tag = next(x for k, x in items if k == "T")
    with_tag = " ".join(x for k, x in items if k in ("w", "x"))
    without = " ".join((x if k == "w" else e) for k, x in items if k in ("w", "x"))
    a = parse(with_tag, TS)
    b = parse(without, TS)
    v = []
    sig = {"path": "hashtag_inside_expression"}
    exp_labels = [t[1:] for t in tag.split(" ")]
    if len(exp_labels) > 1:
        sig["adjacent_hashtags"] = len(exp_labels)
    if a.labels != exp_labels:
        v.append(viol(dict(sig, kind="labels"), "{!r}: labels {} expected {}".format(with_tag, a.labels, exp_labels)))
    if obs(a.resolution) != obs(b.resolution):
        v.append(viol(dict(sig, kind="hashtag_changes_resolution"), "{!r} -> {} but without the hashtag {!r} -> {}".format(with_tag, fmt(obs(a.resolution)), without, fmt(obs(b.resolution)))))
    if a.subject != b.subject:
        v.append(viol(dict(sig, kind="hashtag_changes_subject"), "{!r}: subject {!r} but without the hashtag {!r}".format(with_tag, a.subject, b.subject)))
    return {"o": "inner:" + ("ok" if not v else v[0]["sig"]["kind"]), "nt": True, "v": v[:3]}


def _variant_case(items, how):
    """call the text, then straight afterwards the same text in another letter case: the oracle of the second call is the ordinary one (its own words, its own labels)"""
    f = (lambda x: x.title()) if how == "title" else (lambda x: x.upper())
    text = " ".join(x for _, x in items)
    parse(text, TS)
    it2 = [(k, (x if k == "t" else f(x))) for k, x in items]
    # hashtags keep their spelling; everything else changes case
    t2 = " ".join(x for _, x in it2)
    v = []
    _check(t2, it2, v, {"path": "match", "after_case_variant": how})
    a = parse(text, TS)
    b = parse(t2, TS)
    if obs(a.resolution) != obs(b.resolution):
        v.append(viol({"path": "match", "kind": "case_changes_resolution", "after_case_variant": how}, "{!r} -> {} but {!r} -> {}".format(text, fmt(obs(a.resolution)), t2, fmt(obs(b.resolution)))))
    return {"o": "variant:" + ("ok" if not v else v[0]["sig"]["kind"]), "nt": True, "v": v[:3]}


def run_case(case):
    items, sep = case
    items = [tuple(x) for x in items]
    if any(k == "E" for k, _ in items):
        return _inner_case(items)
    if any(k == "e2" for k, _ in items):
        text = " ".join(x for _, x in items)
        r = parse(text, TS)
        inert = [x for k, x in items if k in ("w", "o")]
        sw = (r.subject or "").split(" ") if r.subject else []
        v = []
        if [w for w in sw if w in inert] != inert:
            v.append(viol({"path": "match", "kind": "inert_word_lost", "family": "two_expressions"}, "{!r}: subject {!r} does not keep the words {} that stand between / behind two expressions".format(text, r.subject, inert)))
        if r.labels != []:
            v.append(viol({"path": "match", "kind": "labels", "family": "two_expressions"}, "{!r}: labels {}".format(text, r.labels)))
        return {"o": "two:" + ("ok" if not v else v[0]["sig"]["kind"]), "nt": True, "v": v}
    keep = next((x for k, x in items if k == "K"), None)
    tagclass = next((x for k, x in items if k == "C"), None)
    variant = next((x for k, x in items if k == "V"), None)
    rml = next((x for k, x in items if k == "R"), None)
    items = [(k, x) for k, x in items if k not in ("K", "C", "V", "R")]
    _RML[0] = rml
    if variant:
        return _variant_case(items, variant)
    text = _join([x for _, x in items], sep)
    v = []
    sig = {"path": "match"}
    if tagclass:
        sig["tagclass"] = tagclass
    if keep:
        r = parse(text, TS)
        sw = (r.subject or "").split(" ")
        if r.resolution is not None and keep not in sw:
            return {"o": "inner_word_lost", "nt": True, "v": [viol({"path": "match", "kind": "unmatchable_word_lost", "why": "equals_inner_word_of_match"}, "{!r}: subject {!r} lost {!r}, a word no pattern matches on its own (it only equals a word inside the matched expression)".format(text, r.subject, keep))]}
    o, subj = _check(text, items, v, sig)
    tags = [x for k, x in items if k == "t"]
    # hashtags removed (all at once and one by one)
    for drop in [tuple(tags)] + [(t,) for t in tags if len(tags) > 1]:
        if not drop:
            continue
        it2 = [(k, x) for k, x in items if x not in drop]
        t2 = _join([x for _, x in it2], sep)
        v2 = []
        o2, s2 = _check(t2, it2, v2, {"path": "match", "hashtags_removed": True})
        v.extend(v2)
        if o2 != o:
            v.append(viol({"kind": "hashtag_changes_resolution"}, "{!r} -> {} but without {} -> {}".format(text, fmt(o), drop, fmt(o2)), o, o2))
        if s2 != subj:
            v.append(viol({"kind": "hashtag_changes_subject"}, "{!r}: subject {!r} but without {} {!r}".format(text, subj, drop, s2), subj, s2))
    # expression removed: the no-match path
    it3 = [(k, x) for k, x in items if k != "e"]
    t3 = _join([x for _, x in it3], sep)
    v3 = []
    o3, s3 = _check(t3, it3, v3, {"path": "no_expression"})
    v.extend(v3)
    return {"o": "ok" if not v else v[0]["sig"]["kind"], "nt": len(items) >= 3, "v": v[:4]}
