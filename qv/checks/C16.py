"""C16 — the scorer is textbook multinomial naive Bayes over 1-3-grams of the rule trace.

Small-scope exhaustive: ALL training sets of <=3 labelled documents (order matters:
the implementation smuggles the vocabulary size through the first document) over a
tiny alphabet x ALL query documents up to a length bound, against qv.nbref.
Shipped model: every candidate of every bundled corpus sentence."""
import itertools
import math
import os
import tempfile

from .. import nbref
from ..common import lib, viol

PID = "C16"
LEVEL = "exploration"
RULE = (
    "Small-scope exhaustive enumeration: every sequence of 2..3 labelled token documents (length 1..3 over the alphabet, both classes present) "
    "is a training set (one evaluation each); for each, every query document of length 1..Lq over alphabet+{unseen} is predicted and compared with the "
    "textbook reference to 1e-9 (finite; probabilities sum to 1 within 1e-12; score/score_final composition for every covered/len pair; save+reload bit-identical). "
    "Plus one evaluation per bundled corpus sentence under the shipped model (every streamed candidate's score recomputed from the model tables). "
    "Non-trivial = training set on which some query has posterior != 0.5; distinct by construction (sequences of distinct index tuples)."
)
ASSUMPTIONS = [
    "reference = textbook formula (class prior from document counts; Laplace alpha=1 over the n-gram vocabulary; unknown n-grams ignored); scikit-learn is not available offline",
    "single-class training sets (log 0 prior) are outside the enumerated scope",
]

TOL = 1e-9


def _docs(alpha, maxlen):
    out = []
    for L in range(1, maxlen + 1):
        out.extend(itertools.product(alpha, repeat=L))
    return [list(d) for d in out]


def _scope(tier):
    if tier == "quick":
        return ("a", "b"), 3, 3, 4  # alphabet, doc len, max docs, query len
    return ("a", "b", "c"), 3, 3, 3


def _labelled(tier):
    alpha, dl, nd, ql = _scope(tier)
    docs = _docs(alpha, dl)
    return [(d, y) for d in docs for y in (True, False)]


def _queries(tier):
    alpha, dl, nd, ql = _scope(tier)
    return _docs(alpha + ("zz",), ql)


def _corpus():
    from ctparse.time.corpus import corpus

    out = []
    for target, ts, tests in corpus:
        for t in tests:
            out.append((t, ts))
    return list(dict.fromkeys(out))


def plan(tier, seed):
    ld = _labelled(tier)
    alpha, dl, nd, ql = _scope(tier)
    n = len(ld)
    if tier == "thorough":
        # 3-document sets over 3 symbols: 78^3 = 474k corpora; first index is the shard
        pass

    def gen():
        for k in range(2, nd + 1):
            for idx in itertools.product(range(n), repeat=k):
                ys = {ld[i][1] for i in idx}
                if len(ys) == 2:
                    yield ("small", tier, idx)
        # long documents with large multiplicities (extreme likelihood ratios, the other end of the scope)
        for L in (4, 9, 12, 16):
            for copies in (1, 8, 27, 64, 128, 300):
                for posfirst in (True, False):
                    yield ("heavy", L, copies, posfirst)
        for text, ts in _corpus():
            yield ("shipped", text, ts)

    ncorp = sum(1 for k in range(2, nd + 1) for idx in itertools.product(range(n), repeat=k) if len({ld[i][1] for i in idx}) == 2) if n < 40 else None
    space = {
        "alphabet": list(alpha),
        "labelled_documents": n,
        "max_documents": nd,
        "training_sets": ncorp if ncorp is not None else "n^2+n^3 minus single-class = {}".format(n**2 + n**3 - 2 * ((n // 2) ** 2 + (n // 2) ** 3)),
        "queries_per_training_set": len(_queries(tier)),
        "corpus_sentences_shipped_model": len(_corpus()),
        "heavy_training_sets": 48,
    }
    return {"space": space, "cases": gen(), "chunk": 32, "hash_distinct": tier == "quick"}


class _PP:
    """stand-in for a PartialParse: exactly the attributes the scorer reads"""

    class _A:
        def __init__(self, s, e):
            self.mstart, self.mend = s, e

        def __len__(self):
            return self.mend - self.mstart

    def __init__(self, rules, mstart, mend):
        self.rules = tuple(rules)
        self.prod = (self._A(mstart, mstart + 1), self._A(mend - 1, mend)) if mend - mstart > 1 else (self._A(mstart, mend),)


_q = {}
_tmp = None
_prev = None


_refit = None


def run_case(case):
    from ctparse.nb_scorer import train_naive_bayes, NaiveBayesScorer, save_naive_bayes

    if case[0] == "shipped":
        return _shipped(case)
    if case[0] == "heavy":
        _, L, copies, posfirst = case
        long_doc = ["r%d" % i for i in range(L)]
        other = long_doc[: L // 2] + ["q%d" % i for i in range(L - L // 2)]
        X = [long_doc] * copies + [other] * max(1, copies // 3) + [["z"], long_doc[:1]]
        y = [posfirst] * copies + [not posfirst] * max(1, copies // 3) + [True, False]
        model = train_naive_bayes(X, y)
        ref = nbref.RefNB(X, y)
        v = []
        qs = [long_doc, other, long_doc[::-1], long_doc[: L // 2], long_doc + other, ["unseen"], long_doc * 3]
        for q in qs:
            got = model.predict_log_proba([q])[0]
            exp = ref.log_proba(q)
            if not (math.isfinite(got[0]) and math.isfinite(got[1])) or max(abs(got[0] - exp[0]), abs(got[1] - exp[1])) > 1e-7:
                v.append(viol({"kind": "log_proba_mismatch", "family": "heavy"}, "document of {} rules x {} copies: query {} -> {} expected {}".format(L, copies, q, tuple(got), exp), exp, tuple(got)))
                break
            lo_g, lo_e = got[1] - got[0], ref.log_odds(q)
            if abs(lo_g - lo_e) > 1e-7:
                v.append(viol({"kind": "log_odds_mismatch", "family": "heavy"}, "document of {} rules x {} copies: query {} log-odds {} expected {}".format(L, copies, q, lo_g, lo_e), lo_e, lo_g))
                break
        got_b = model.predict_log_proba(qs)
        for q, gb in zip(qs, got_b):
            exp = ref.log_proba(q)
            if not v and max(abs(gb[0] - exp[0]), abs(gb[1] - exp[1])) > 1e-7:
                v.append(viol({"kind": "batch_position_changes_prediction", "family": "heavy"}, "document of {} rules x {} copies: query {} inside a batch -> {} expected {}".format(L, copies, q, tuple(gb), exp)))
        return {"o": "heavy:" + ("ok" if not v else v[0]["sig"]["kind"]), "nt": True, "v": v[:2], "st": {"predictions": len(qs) * 2}}
    _, tier, idx = case
    ld = _labelled(tier)
    X = [ld[i][0] for i in idx]
    y = [ld[i][1] for i in idx]
    v = []
    model = train_naive_bayes(X, y)
    ref = nbref.RefNB(X, y)
    # models are independent objects: training this one must not disturb the one trained for the previous case
    global _prev
    if _prev is not None:
        pm, pq, pexp, pX, py = _prev
        again = pm.predict_log_proba([pq])[0]
        if max(abs(again[0] - pexp[0]), abs(again[1] - pexp[1])) > TOL:
            v.append(viol({"kind": "training_disturbs_other_model"}, "model trained on X={} y={} predicted {} for {}; after training another model (X={} y={}) it predicts {}".format(pX, py, pexp, pq, X, y, again), pexp, again))
    if tier not in _q:
        _q[tier] = _queries(tier)
    scorer = NaiveBayesScorer(model)
    nontrivial = False
    worst = 0.0
    for q in _q[tier]:
        got = model.predict_log_proba([q])[0]
        exp = ref.log_proba(q)
        if not (math.isfinite(got[0]) and math.isfinite(got[1])):
            v.append(viol({"kind": "not_finite"}, "train X={} y={} query {} -> {}".format(X, y, q, got), exp, got))
            break
        d = max(abs(got[0] - exp[0]), abs(got[1] - exp[1]))
        worst = max(worst, d)
        if d > TOL:
            v.append(viol({"kind": "log_proba_mismatch"}, "train X={} y={} query {}: got {} expected {}".format(X, y, q, got, exp), exp, got))
            break
        if abs(math.exp(got[0]) + math.exp(got[1]) - 1.0) > 1e-12:
            v.append(viol({"kind": "not_normalised"}, "train X={} y={} query {}: probabilities sum to {}".format(X, y, q, math.exp(got[0]) + math.exp(got[1]))))
            break
        if abs(got[0] - got[1]) > 1e-12:
            nontrivial = True
    # batch prediction: every document of a batch gets what it gets alone, whatever stands before it in the batch
    if not v:
        qs = list(_q[tier])
        for batch in (qs, qs[::-1], [qs[0], qs[-1], qs[0]] + qs[: max(1, len(qs) // 2)]):
            got_b = model.predict_log_proba(batch)
            if len(got_b) != len(batch):
                v.append(viol({"kind": "batch_length"}, "batch of {} documents -> {} predictions".format(len(batch), len(got_b))))
                break
            for pos, (q, gb) in enumerate(zip(batch, got_b)):
                exp = ref.log_proba(q)
                if not (max(abs(gb[0] - exp[0]), abs(gb[1] - exp[1])) <= TOL):
                    v.append(viol({"kind": "batch_position_changes_prediction"}, "train X={} y={}: document {} at position {} of a batch of {} -> {} expected {}".format(X, y, q, pos, len(batch), tuple(gb), exp), exp, tuple(gb)))
                    break
            if v:
                break
    # fitting an already fitted pipeline object again: the model is that of the NEW training set, nothing of the old one survives
    if not v:
        global _refit
        if _refit is None:
            _refit = train_naive_bayes([["zz", "yy", "xx"], ["yy"], ["ww", "zz"]], [True, False, True])
        _refit.fit(X, [1 if yy else -1 for yy in y])
        for q in _q[tier][:: max(1, len(_q[tier]) // 8)] + [X[0]]:
            got = _refit.predict_log_proba([q])[0]
            exp = ref.log_proba(q)
            if not (max(abs(got[0] - exp[0]), abs(got[1] - exp[1])) <= TOL):
                v.append(viol({"kind": "refit_keeps_old_state"}, "pipeline fitted before on another training set, fitted again on X={} y={}: query {} -> {} expected {}".format(X, y, q, tuple(got), exp), exp, tuple(got)))
                break
    # score composition on a few documents x (covered, len) pairs
    if not v:
        for q in (_q[tier][0], _q[tier][len(_q[tier]) // 2], _q[tier][-1], X[0]):
            lo = ref.log_odds(q)
            for ln in (1, 7, 40):
                txt = "x" * ln
                for cov in sorted({1, (ln + 1) // 2, ln}):
                    pp = _PP(q, 0, cov)
                    s = scorer.score(txt, None, pp)
                    e = lo + math.log(cov / ln)
                    if not (abs(s - e) <= TOL):
                        v.append(viol({"kind": "score_composition"}, "score for trace {} covered {}/{}: got {} expected {}".format(q, cov, ln, s, e), e, s))
                    sf = scorer.score_final(txt, None, pp, _PP._A(0, cov))
                    ef = lo + 1000 * math.log(cov / ln)
                    if not (abs(sf - ef) <= 1e-6):
                        v.append(viol({"kind": "score_final_composition"}, "score_final for trace {} covered {}/{}: got {} expected {}".format(q, cov, ln, sf, ef), ef, sf))
            if v:
                break
    # persistence
    if not v:
        global _tmp
        if _tmp is None:
            fd, _tmp = tempfile.mkstemp(prefix="qv_c16_", suffix=".pbz")
            os.close(fd)
            import atexit

            atexit.register(lambda p=_tmp: os.path.exists(p) and os.unlink(p))
        save_naive_bayes(model, _tmp)
        sc2 = NaiveBayesScorer.from_model_file(_tmp)
        for q in _q[tier][:: max(1, len(_q[tier]) // 12)]:
            pp = _PP(q, 0, 3)
            a = (scorer.score("x" * 9, None, pp), scorer.score_final("x" * 9, None, pp, _PP._A(0, 3)))
            b = (sc2.score("x" * 9, None, pp), sc2.score_final("x" * 9, None, pp, _PP._A(0, 3)))
            if a != b:
                v.append(viol({"kind": "reload_changes_score"}, "trace {}: {} before, {} after save+reload".format(q, a, b), a, b))
                break
    _prev = (model, _q[tier][len(_q[tier]) // 3], model.predict_log_proba([_q[tier][len(_q[tier]) // 3]])[0], X, y) if not v else None
    return {"o": "small:" + ("ok" if not v else v[0]["sig"]["kind"]), "nt": nontrivial, "v": v[:3], "st": {"predictions": len(_q[tier])}}


def _shipped(case):
    import re

    _, text, ts = case
    cp, gen, m = lib()
    from datetime import datetime

    tsd = datetime.strptime(ts, "%Y-%m-%dT%H:%M")
    sc = m._DEFAULT_SCORER
    model = getattr(sc, "_model", None)
    if model is None:
        return {"o": "shipped:no-model", "skip": "default scorer has no model", "nt": False}
    voc = model.transformer.vocabulary
    ll = model.estimator.log_likelihood
    pr = model.estimator.class_prior
    norm = re.sub(" {2,}", " ", re.sub("#[a-zA-Z0-9_-]+", "", m._preprocess_string(text)).strip())
    v = []
    n = 0
    try:
        cands = list(gen(text, ts=tsd, timeout=0, latent_time=False))
    except Exception:
        return {"o": "shipped:parse-raised", "skip": "the parse raised (C01's statement)", "nt": False}
    for cand in cands:
        if cand is None:
            continue
        n += 1
        doc = [str(p) for p in cand.production]
        lo = nbref.log_odds_from_tables(voc, ll["positive_class"], ll["negative_class"], pr[0], pr[1], doc)
        ln = cand.resolution.mend - cand.resolution.mstart
        if ln <= 0 or len(norm) == 0:
            v.append(viol({"kind": "shipped_zero_length"}, "{!r}: candidate {} has span length {}".format(text, cand.resolution, ln)))
            continue
        e = lo + 1000 * math.log(ln / len(norm))
        if not math.isfinite(cand.score) or abs(cand.score - e) > 1e-6:
            v.append(viol({"kind": "shipped_score"}, "{!r}: candidate {} score {} expected {}".format(text, cand.production, cand.score, e), e, cand.score))
    return {"o": "shipped:" + ("ok" if not v else "bad"), "nt": n > 0, "v": v[:3], "st": {"shipped_candidates": n}}
