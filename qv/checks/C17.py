"""C17 — training data are truthful: one sample per trace prefix, labelled by value.

(1) every entry of datasets/timeparse_corpus.json, every (target, ts, tests) triple
of ctparse/time/corpus.py (thorough: auto_corpus too) and generated entries of each
result type: the harness rebuilds the expected sample list from ctparse_gen itself
and compares it with the builders' output element by element;
(2) duplication monotonicity on every small-scope training set (scope of C16)."""
import itertools
import json
import os
from datetime import datetime

from .. import runner
from ..common import lib, viol, ts_of
from ..obs import obs, fmt

PID = "C17"
ON_LIBRARY_RAISE = "skip"  # the statement is about values that are produced; a raising parse is C01's finding
LEVEL = "exploration"
RULE = (
    "Dataset builders: one evaluation per entry; expected samples = for every candidate of ctparse_gen(text, ts, relative_match_len=1.0, timeout=0, max_stack_depth=d, scorer=constant, "
    "latent_time=False), one sample per non-empty prefix of its production (as strings), label = (obs(candidate) == obs(gold)), spans ignored; must equal make_partial_rule_dataset / run_corpus output "
    "element-wise.  Generated entries: golds of every result type (Time, closed/open Interval, Duration) incl. golds equal to a candidate up to span.  Monotonicity: every small-scope training set "
    "(all sequences of 2..3 labelled documents over {a,b}, length<=3) x every positive document x k in {1,2,5} extra copies: log-odds of that document's own trace must not decrease (1e-12).  "
    "Plus class-imbalanced sets: distinct labelled documents (length<=2) with multiplicities {1,3,9} (2 documents) / {1,9} (3 documents); thorough {1,2,4,8}.  Non-trivial = entry with at least one positive and one negative sample / training set where the score strictly increases; distinct = distinct entries / (training set, document, k)."
)
ASSUMPTIONS = [
    "value equality = observation tuples (C18 establishes that the classes' own equality agrees)",
    "'example' in the monotonicity clause is one (trace, label) training sample",
]


def _dataset():
    p = os.path.join(runner.REPO, "datasets", "timeparse_corpus.json")
    with open(p, encoding="utf-8") as fd:
        return json.load(fd)


RML_ENTRIES = [
    ("Monday 5pm or 3.4.2020", "2018-03-07T12:43:00", "Time[]{2020-04-03 X:X (X/X)}"),
    ("5:30 - 7pm", "2018-03-07T12:43:00", "Time[]{X-X-X 19:00 (X/X)}"),
    ("lunch tomorrow or friday 8pm", "2018-03-07T12:43:00", "Time[]{2018-03-08 X:X (X/X)}"),
]
GENERATED = [
    ("tomorrow 5pm", "2018-03-07T12:43:00", "Time[]{2018-03-08 17:00 (X/X)}"),
    ("tomorrow 5pm", "2018-03-07T12:43:00", "Time[]{X-X-X 17:00 (X/X)}"),
    ("3 days", "2018-03-07T12:43:00", "Duration[]{3 days}"),
    ("3 days", "2018-03-07T12:43:00", "Duration[]{5 days}"),
    ("3 days", "2018-03-07T12:43:00", "Duration[]{3 weeks}"),
    ("two weeks", "2018-03-07T12:43:00", "Duration[]{2 weeks}"),
    ("half an hour", "2018-03-07T12:43:00", "Duration[]{30 minutes}"),
    ("8.5.2018 for 3 days", "2018-03-07T12:43:00", "Interval[]{2018-05-08 X:X (X/X) - 2018-05-11 X:X (X/X)}"),
    ("8.5.2018 for 3 days", "2018-03-07T12:43:00", "Duration[]{3 days}"),
    ("before 5pm", "2018-03-07T12:43:00", "Interval[]{None - X-X-X 17:00 (X/X)}"),
    ("after 8.5.2018", "2018-03-07T12:43:00", "Interval[]{2018-05-08 X:X (X/X) - None}"),
    ("9-5", "2018-03-07T12:43:00", "Interval[]{X-X-X 09:00 (X/X) - X-X-X 17:00 (X/X)}"),
    ("monday morning", "2018-03-07T12:43:00", "Time[]{2018-03-12 X:X (X/morning)}"),
    ("gargelbabel", "2018-03-07T12:43:00", "Time[]{2018-03-12 X:X (X/X)}"),
    ("eine nacht", "2018-03-07T12:43:00", "Duration[]{1 nights}"),
]


# run_corpus triples whose targets keep a weekday and/or a part of day (value fields that are 0 / falsy included)
EXTRA_TRIPLES = [
    ("Time[]{X-X-X X:X (0/morning)}", "2018-03-07T12:43", ["Montag früh", "monday morning"]),
    ("Time[]{X-X-X X:X (6/night)}", "2018-03-07T12:43", ["sunday night"]),
    ("Time[]{X-X-X 00:00 (X/X)}", "2018-03-07T12:43", ["midnight", "0:00"]),
    ("Duration[]{1 nights}", "2018-03-07T12:43", ["eine nacht", "1 night"]),
    ("Interval[]{X-X-X 09:00 (X/X) - X-X-X 17:00 (X/X)}", "2018-03-07T12:43", ["9-5", "9:00 - 17:00"]),
]


def _small_scope(maxlen=3):
    docs = []
    for L in range(1, maxlen + 1):
        docs.extend(list(d) for d in itertools.product(("a", "b"), repeat=L))
    return [(d, y) for d in docs for y in (True, False)]


def plan(tier, seed):
    ds = _dataset()
    from ctparse.time.corpus import corpus

    corp = list(corpus)
    if tier == "thorough":
        from ctparse.time import auto_corpus

        corp = corp + [tuple(c) for c in auto_corpus.corpus]
    ld = _small_scope()
    n = len(ld)

    def gen():
        for i in range(len(ds)):
            yield ("entry", i, 10, "dummy")
            if tier == "thorough" or i % 4 == 0:
                yield ("entry", i, 10, "shipped")  # a path-dependent scorer re-streams a value with a better score: those samples count too
            if tier == "thorough":
                yield ("entry", i, 0, "dummy")
        for g in GENERATED:
            for d in (0, 10):
                for sk in ("dummy", "shipped"):
                    yield ("gen",) + g + (d, sk)
        # the builder's own options are handed through: relative_match_len below 1 lets shorter match sequences in
        for g in GENERATED + RML_ENTRIES:
            for rml in (0.8, 0.5, 0.1):
                yield ("gen",) + g + (0, "dummy", rml)
                yield ("gen",) + g + (10, "shipped", rml)
        for i in range(len(corp)):
            yield ("corpus", i, tier)
        for i in range(len(EXTRA_TRIPLES)):
            yield ("corpus", -1 - i, tier)
        for k in (2, 3):
            for idx in itertools.product(range(n), repeat=k):
                if len({ld[i][1] for i in idx}) == 2:
                    yield ("mono", idx)
        # class-imbalanced training sets: 2..3 distinct labelled documents (length <= 2) with multiplicities
        ld2 = _small_scope(2)
        for k in (2, 3):
            mults = ((1, 3, 9) if k == 2 else (1, 9)) if tier == "quick" else (1, 2, 4, 8)
            for idx in itertools.product(range(len(ld2)), repeat=k):
                if len({ld2[i][1] for i in idx}) == 2 and len(set(idx)) == k:
                    for mm in itertools.product(mults, repeat=k):
                        if max(mm) > 1:
                            yield ("mono2", idx, mm)

        # long traces under heavy duplication: the log-odds must not drop anywhere along the chain of 1..N copies
        for L in (4, 6, 9, 10, 12, 16):
            for negkind in ("prefix", "disjoint", "same_tokens_other_order"):
                yield ("mono3", L, negkind, 40 if tier == "quick" else 160)

        # heavily imbalanced training sets (tens to hundreds of negatives per positive): copies of one positive example, one at a time
        for n_neg in (30, 83, 200, 505):
            for L in (2, 5, 9):
                yield ("mono4", n_neg, L, 24 if tier == "quick" else 120)

    space = {"imbalanced_duplication_chains": 12, "long_trace_duplication_chains": 18, "dataset_entries": len(ds), "corpus_triples": len(corp), "generated_entries": len(GENERATED), "small_scope_training_sets": sum(1 for k in (2, 3) for idx in itertools.product(range(n), repeat=k) if len({ld[i][1] for i in idx}) == 2), "copies": [1, 2, 5]}
    return {"space": space, "cases": gen(), "chunk": 16, "hash_distinct": True}


def _expected(text, ts, gold_obs, depth, scorer, rml=1.0):
    gen = lib()[1]
    out = []
    for c in gen(text, ts, relative_match_len=rml, timeout=0, max_stack_depth=depth, scorer=scorer, latent_time=False):
        if c is None:
            continue
        y = obs(c.resolution) == gold_obs
        for i in range(1, len(c.production) + 1):
            out.append(([str(p) for p in c.production[:i]], y))
    return out


def _cmp(got, exp, what, v, kind):
    got = [(list(x), bool(y)) for x, y in got]
    if got != exp:
        k = next((i for i in range(min(len(got), len(exp))) if got[i] != exp[i]), min(len(got), len(exp)))
        why = "length" if k >= min(len(got), len(exp)) else ("label" if got[k][0] == exp[k][0] else "trace")
        v.append(viol({"kind": kind, "why": why}, "{}: sample {} is {} but expected {} ({} vs {} samples)".format(what, k, got[k] if k < len(got) else None, exp[k] if k < len(exp) else None, len(got), len(exp))))


def run_case(case):
    from ctparse.corpus import make_partial_rule_dataset, TimeParseEntry, parse_nb_string, run_corpus
    from ctparse.scorer import DummyScorer

    kind = case[0]
    v = []
    if kind in ("entry", "gen"):
        if kind == "entry":
            e = _dataset()[case[1]]
            text, ts, gold_s, depth, sk = e["text"], datetime.strptime(e["ref_time"], "%Y-%m-%dT%H:%M:%S"), e["gold_parse"], case[2], case[3]
        else:
            _, text, ts_s, gold_s, depth, sk = case[:6]
            ts = ts_of(ts_s)
        rml = case[6] if kind == "gen" and len(case) > 6 else None
        mk = (lambda: DummyScorer()) if sk == "dummy" else (lambda: lib()[2]._DEFAULT_SCORER)
        gold = parse_nb_string(gold_s)
        entry = TimeParseEntry(text=text, ts=ts, gold=gold)
        if rml is None:
            got = list(make_partial_rule_dataset([entry], scorer=mk(), timeout=0, max_stack_depth=depth))
            exp = _expected(text, ts, obs(gold), depth, mk())
        else:
            got = list(make_partial_rule_dataset([entry], scorer=mk(), timeout=0, max_stack_depth=depth, relative_match_len=rml))
            exp = _expected(text, ts, obs(gold), depth, mk(), rml)
        _cmp(got, exp, "make_partial_rule_dataset({!r}, gold {}{})".format(text, gold_s, "" if rml is None else ", relative_match_len=%s" % rml), v, "partial_rule_dataset")
        labels = {y for _, y in exp}
        return {"o": kind + ":" + ("ok" if not v else "bad"), "nt": len(labels) == 2, "v": v, "st": {"samples": len(exp), "positive_samples": sum(1 for _, y in exp if y)}}
    if kind == "corpus":
        import logging

        from ctparse.time.corpus import corpus

        corp = list(corpus)
        if case[2] == "thorough":
            from ctparse.time import auto_corpus

            corp = corp + [tuple(c) for c in auto_corpus.corpus]
        target, ts_s, tests = corp[case[1]] if case[1] >= 0 else EXTRA_TRIPLES[-1 - case[1]]
        try:
            import ctparse.corpus as CC

            real_tqdm = CC.tqdm
            CC.tqdm = lambda x, **k: x
            try:
                Xs, ys = run_corpus([(target, ts_s, tests)])
            finally:
                CC.tqdm = real_tqdm
        except Exception as e:
            if case[1] < 0:
                # the harness's own triples: their targets ARE produced on a healthy tree, so 'never produced' means the labelling compares wrongly
                return {"o": "corpus:extra-raises", "nt": True, "v": [viol({"kind": "run_corpus", "why": "target_never_labelled_positive"}, "run_corpus({!r}, {}) raised {!r}: no candidate was labelled positive although the target value is produced".format(target, list(tests), e))]}
            return {"o": "corpus:raises", "skip": "run_corpus raised for this triple (target never produced: test_run_corpus territory)", "nt": False}
        gold = obs(parse_nb_string(target))
        ts = datetime.strptime(ts_s, "%Y-%m-%dT%H:%M")
        exp = []
        for t in tests:
            exp.extend(_expected(t, ts, gold, 0, DummyScorer()))
        _cmp(list(zip(Xs, ys)), exp, "run_corpus({!r}, {})".format(target, tests), v, "run_corpus")
        labels = {y for _, y in exp}
        return {"o": "corpus:" + ("ok" if not v else "bad"), "nt": len(labels) == 2, "v": v, "st": {"samples": len(exp)}}
    if kind == "mono4":
        from ctparse.nb_scorer import train_naive_bayes

        _, n_neg, L, top = case
        pos = ["r%d" % i for i in range(L)]
        negs = []
        for i in range(n_neg):
            # negatives share prefixes of the positive trace (as the prefixes of wrong candidates do) and differ behind them
            k = i % (L + 1)
            negs.append(pos[:k] + ["q%d" % (i % 7), "q%d" % (i % 11)])
        X0 = [pos] + negs + [pos[:1]]
        y0 = [True] + [False] * n_neg + [True]
        prev = {}
        strict = False
        queries = [pos[:i] for i in range(1, L + 1)]
        for c in range(0, top + 1):
            m2 = train_naive_bayes(X0 + [pos] * c, y0 + [True] * c)
            for q in queries:
                p_ = m2.predict_log_proba([q])[0]
                cur = p_[1] - p_[0]
                pk = tuple(q)
                if pk in prev and cur < prev[pk][1] - 1e-9:
                    v.append(viol({"kind": "duplication_lowers_score", "family": "imbalanced"}, "{} negatives, positive trace of {} rules: prefix {} has log-odds {} with {} extra copies but {} with {}".format(n_neg, L, q, prev[pk][1], prev[pk][0], cur, c)))
                    break
                if pk in prev and cur > prev[pk][1] + 1e-12:
                    strict = True
                prev[pk] = (c, cur)
            if v:
                break
        return {"o": "mono4:" + ("ok" if not v else "bad"), "nt": strict, "v": v[:2], "st": {"retrainings": top + 1}}
    if kind == "mono3":
        from ctparse.nb_scorer import train_naive_bayes

        _, L, negkind, top = case
        pos = ["r%d" % i for i in range(L)]
        neg = {"prefix": pos[: L // 2] + ["q%d" % i for i in range(L - L // 2)], "disjoint": ["q%d" % i for i in range(L)], "same_tokens_other_order": pos[::-1]}[negkind]
        X0 = [pos, neg, neg[:2], pos[:1] + ["z"]]
        y0 = [True, False, False, True]
        prev = None
        strict = False
        counts = list(range(0, 12)) + [int(round(12 * 1.09 ** i)) for i in range(1, 200)]
        counts = sorted({c for c in counts if c <= top * 4})
        for c in counts:
            m2 = train_naive_bayes(X0 + [pos] * c, y0 + [True] * c)
            p_ = m2.predict_log_proba([pos])[0]
            cur = p_[1] - p_[0]
            if prev is not None and cur < prev[1] - 1e-9:
                v.append(viol({"kind": "duplication_lowers_score", "family": "long_trace"}, "trace of {} rules ({} negative): {} copies give log-odds {} but {} copies give {}".format(L, negkind, prev[0], prev[1], c, cur)))
                break
            if prev is not None and cur > prev[1] + 1e-12:
                strict = True
            prev = (c, cur)
        return {"o": "mono3:" + ("ok" if not v else "bad"), "nt": strict, "v": v[:2], "st": {"retrainings": len(counts)}}
    if kind in ("mono", "mono2"):
        from ctparse.nb_scorer import train_naive_bayes

        if kind == "mono":
            ld = _small_scope()
            X = [ld[i][0] for i in case[1]]
            y = [ld[i][1] for i in case[1]]
        else:
            ld = _small_scope(2)
            X, y = [], []
            for i, mlt in zip(case[1], case[2]):
                X += [ld[i][0]] * mlt
                y += [ld[i][1]] * mlt
        strict = False

        def lo(model, doc):
            p = model.predict_log_proba([doc])[0]
            return p[1] - p[0]

        base = train_naive_bayes(X, y)
        for j in sorted({tuple(d) for d, yy in zip(X, y) if yy}):
            doc = list(j)
            before = lo(base, doc)
            for k in (1, 2, 5):
                m2 = train_naive_bayes(X + [doc] * k, y + [True] * k)
                after = lo(m2, doc)
                if after < before - 1e-12:
                    v.append(viol({"kind": "duplication_lowers_score"}, "training set X={} y={}: {} more cop{} of positive example {} lower its log-odds from {} to {}".format(X, y, k, "y" if k == 1 else "ies", doc, before, after), before, after))
                if after > before + 1e-12:
                    strict = True
        return {"o": "mono:" + ("ok" if not v else "bad"), "nt": strict, "v": v[:2], "st": {"retrainings": 3}}
    raise ValueError(kind)
