"""C08 — durations keep amount and unit; 'X for N units' ends exactly N units later.

(1) N in 0..120 as digits x every unit spelling; (2) every number word 1..31 in both
languages (harness-side dictionary = the specification the property names) x unit
words; (3) half forms; (4) <date[ time]> for <duration> over start dates x amounts x
units against refcal arithmetic; (5) <N days|nights> <date range> consistency."""
from datetime import date, datetime, timedelta

from .. import refcal, vocab
from ..common import parse, res_obs, viol, ts_of
from ..obs import T, fmt

PID = "C08"
LEVEL = "exploration"
RULE = (
    "Digits: N=0..120 x every spelling of every unit pattern (spellings that the library itself reads as a clock time when written after a number, e.g. '5h', are skipped and counted).  "
    "Number words: English one..thirtyone and German ein(e)..einunddreissig/einunddreißig (dictionary in the harness, as named by the property) x unit words of both languages.  "
    "Half forms.  '<date[ hh:mm]> for|für <N> <unit>': start dates (quick: month starts/ends + leap days of 2016-2019; thorough: every date of 2016-2019 and month ends 2016-2029) x N in "
    "{0,1,2,3,7,28,29,30,31,60,365,366,1461} x 6 units; expected end by refcal arithmetic (months clip to month length).  '<N days|nights> <range>' for range lengths 1..10 x N 0..10 in three "
    "word orders: full-span interval iff the range is N days long.  Non-trivial = every judged case with N != 1; distinct = distinct texts."
)
ASSUMPTIONS = [
    "the number-word dictionary (standard spelling, compounds written together) is the specification named by the property text",
    "date arithmetic specification = refcal (ordinals; month addition clips to the month length)",
]

TS = "2018-03-07T12:43:00"
EN = ["one", "two", "three", "four", "five", "six", "seven", "eight", "nine", "ten", "eleven", "twelve", "thirteen", "fourteen", "fifteen", "sixteen", "seventeen", "eighteen", "nineteen", "twenty",
      "twentyone", "twentytwo", "twentythree", "twentyfour", "twentyfive", "twentysix", "twentyseven", "twentyeight", "twentynine", "thirty", "thirtyone"]
DE = ["ein", "zwei", "drei", "vier", "fünf", "sechs", "sieben", "acht", "neun", "zehn", "elf", "zwölf", "dreizehn", "vierzehn", "fünfzehn", "sechzehn", "siebzehn", "achtzehn", "neunzehn", "zwanzig",
      "einundzwanzig", "zweiundzwanzig", "dreiundzwanzig", "vierundzwanzig", "fünfundzwanzig", "sechsundzwanzig", "siebenundzwanzig", "achtundzwanzig", "neunundzwanzig", "dreißig", "einunddreißig"]
DE_ALT = {1: ["eine"], 30: ["dreissig"], 31: ["einunddreissig"]}
UNIT_WORDS = {
    "minutes": (["minute", "minutes"], ["minute", "minuten"]),
    "hours": (["hour", "hours"], ["stunde", "stunden"]),
    "days": (["day", "days"], ["tag", "tage"]),
    "nights": (["night", "nights"], ["nacht", "nächte"]),
    "weeks": (["week", "weeks"], ["woche", "wochen"]),
    "months": (["month", "months"], ["monat", "monate"]),
}
AMOUNTS = [0, 1, 2, 3, 7, 28, 29, 30, 31, 60, 365, 366, 1461]


def add(start, n, unit):
    """start: datetime -> expected end observation"""
    d = start.date()
    if unit in ("days", "nights"):
        e = refcal.add_days(d, n)
        return T(e.year, e.month, e.day)
    if unit == "weeks":
        e = refcal.add_days(d, 7 * n)
        return T(e.year, e.month, e.day)
    if unit == "months":
        e = refcal.add_months(d, n)
        return T(e.year, e.month, e.day)
    e = start + (timedelta(hours=n) if unit == "hours" else timedelta(minutes=n))
    return T(e.year, e.month, e.day, e.hour, e.minute)


def _start_dates(tier):
    out = []
    for d in refcal.cycle(2016, 2019):
        if tier == "thorough" or d.day in (1, 28, 29, 30, 31) or (d.month, d.day) in ((3, 7),):
            out.append(d)
    if tier == "thorough":
        # month ends up to 2029 only: the library's year pattern is 19\d\d|20[0-2]\d, later years are not claimed to parse
        for d in refcal.cycle(2020, 2029):
            if d == refcal.last_of_month(d):
                out.append(d)
    return out


def plan(tier, seed):
    units = vocab.duration_units()
    starts = _start_dates(tier)

    def gen():
        for uname, alts in units:
            for a in alts:
                for n in range(0, 121):
                    yield ("digits", "{} {}".format(n, a), n, uname, a, TS)
                    if tier == "thorough":
                        yield ("digits", "{}{}".format(n, a), n, uname, a + " (glued)", TS)
        for n in range(1, 32):
            words = [("en", EN[n - 1]), ("de", DE[n - 1])] + [("de", w) for w in DE_ALT.get(n, [])]
            if n == 1:
                words += [("en", "a"), ("en", "an")]
            if n in (1, 2, 12, 31) or tier == "thorough":
                # number word + every spelling of every unit pattern, abbreviations included ('one m', 'zwei h')
                for lang, w in words[:2]:
                    for uname, alts in units:
                        for a in alts:
                            if not _reads_as_clock(a) or True:
                                yield ("word_abbrev", "{} {}".format(w, a), n, uname, w + "+" + a, TS)
            for lang, w in words:
                for uname, (en_u, de_u) in UNIT_WORDS.items():
                    for u in (en_u if lang == "en" else de_u):
                        if w == "an" and u[0] not in "aeiouh":
                            continue
                        if w == "a" and u[0] in "aeiou":
                            continue
                        yield ("word", "{} {}".format(w, u), n, uname, w, TS)
        for txt, n, u in [("half an hour", 30, "minutes"), ("half a day", 12, "hours"), ("halbe stunde", 30, "minutes"), ("1/2 hour", 30, "minutes"), ("1/2 day", 12, "hours"), ("half hour", 30, "minutes"), ("1/2 h", 30, "minutes"), ("halb tag", 12, "hours")]:
            yield ("half", txt, n, u, txt, TS)
        for d in starts:
            for n in AMOUNTS:
                for uname, (en_u, de_u) in UNIT_WORDS.items():
                    u = en_u[0] if n == 1 else en_u[1]
                    ds = "{}.{}.{}".format(d.day, d.month, d.year)
                    yield ("for", "{} for {} {}".format(ds, n, u), (d.year, d.month, d.day, None, None), n, uname, TS)
                    if d.day >= 28 or tier == "thorough":
                        yield ("for", "{} 14:30 für {} {}".format(ds, n, de_u[0] if n == 1 else de_u[1]), (d.year, d.month, d.day, 14, 30), n, uname, TS)
        # the start written in other notations (month names, weekday in front, connector words, clock after the date)
        months_ = dict(vocab.months())
        for d in (date(2024, 2, 29), date(2019, 1, 31), date(2021, 4, 30), date(2018, 12, 31)):  # years that do not read as hh:mm (military heuristic, cf. C05)
            en = vocab.canon(months_[d.month], (vocab.EN_MONTH[d.month - 1],))
            de = vocab.canon(months_[d.month], (vocab.DE_MONTH[d.month - 1],))
            wd = vocab.EN_DOW[d.weekday()][:3]
            nots = [
                ("d. Monat yyyy", "{}. {} {}".format(d.day, de, d.year), None),
                ("Month d yyyy", "{} {} {}".format(en, d.day, d.year), None),
                ("d Month yyyy", "{} {} {}".format(d.day, en, d.year), None),
                ("dth of Month yyyy", "{}th of {} {}".format(d.day, en, d.year) if d.day not in (1, 2, 3, 21, 22, 23, 31) else "{}st of {} {}".format(d.day, en, d.year) if d.day in (1, 21, 31) else None, None),
                ("Dow d Mon yyyy", "{} {} {} {}".format(wd, d.day, en[:3], d.year), None),
                ("d.m.yyyy hh:mm", "{}.{}.{} 23:30".format(d.day, d.month, d.year), (23, 30)),
                ("Month d yyyy h:mmpm", "{} {} {} 11:30pm".format(en, d.day, d.year), (23, 30)),
                ("d Month yyyy at hh:mm", "{} {} {} at 23:30".format(d.day, en, d.year), (23, 30)),
                ("on d Month yyyy at hh:mm", "on {} {} {} at 23:30".format(d.day, en, d.year), (23, 30)),
                ("am d. Monat yyyy um hh:mm", "am {}. {} {} um 23:30".format(d.day, de, d.year), (23, 30)),
            ]
            for key, stxt, hm in nots:
                if stxt is None:
                    continue
                for n, uname, utxt in ((2, "days", "days"), (45, "minutes", "minutes"), (2, "weeks", "weeks"), (1, "months", "month"), (3, "hours", "hours"), (2, "nights", "nights")):
                    for conn in ("for", "für"):
                        yield ("forn", "{} {} {} {}".format(stxt, conn, n, utxt), (d.year, d.month, d.day, hm[0] if hm else None, hm[1] if hm else None), n, uname, key)
        # ranges of a month or more, and of k years + N days (the consistency check must compare the whole length)
        for (a, b) in ((date(2020, 3, 1), date(2020, 4, 1)), (date(2020, 11, 15), date(2021, 11, 18)), (date(2020, 11, 15), date(2022, 11, 18)), (date(2021, 1, 31), date(2021, 3, 3)), (date(2019, 12, 30), date(2020, 1, 2))):
            ln = (b - a).days
            for n in sorted({3, 31, ln, ln - 365, ln - 366, ln - 730, 1} - {0}):
                if n <= 0:
                    continue
                rng = "{:02d}.{:02d}.{} - {:02d}.{:02d}.{}".format(a.day, a.month, a.year, b.day, b.month, b.year)
                for u in ("days", "nights"):
                    yield ("durrange2", "{} {} {}".format(n, u if n != 1 else u[:-1], rng), (a.year, a.month, a.day), (b.year, b.month, b.day), n, TS)
                    yield ("durrange2", "{} für {} {}".format(rng, n, "nächte" if n != 1 else "nacht"), (a.year, a.month, a.day), (b.year, b.month, b.day), n, TS)
        base = date(2018, 11, 15)
        for ln in range(1, 11):
            for n in range(0, 11):
                for uname, u in (("days", "days"), ("nights", "nights"), ("nights", "Nächte")):
                    b = refcal.add_days(base, ln)
                    rng = "{}.{}.{}-{}.{}.{}".format(base.day, base.month, base.year, b.day, b.month, b.year)
                    dur = "{} {}".format(n, u if n != 1 else u.rstrip("s"))
                    yield ("durrange", dur + " " + rng, ln, n, "dur range", TS)
                    yield ("durrange", rng + " " + dur, ln, n, "range dur", TS)
                    yield ("durrange", rng + " für " + dur, ln, n, "range für dur", TS)

    space_long = 1
    space = {"unit_spellings": sum(len(a) for _, a in units), "digit_amounts": 121, "number_words": 31, "start_dates": len(starts), "amounts": AMOUNTS, "units": 6, "range_lengths": 10, "range_amounts": 11}
    return {"space": space, "cases": gen(), "chunk": 128, "hash_distinct": tier == "quick"}


_clockish = {}


def _reads_as_clock(a):
    """does the library read '<number> <unit spelling>' as a time of day when the number is an hour? (e.g. '5 h')"""
    if a not in _clockish:
        g = res_obs(parse("5 " + a.replace(" (glued)", "") if "(glued)" not in a else "5" + a.replace(" (glued)", ""), TS, latent_time=False))
        _clockish[a] = g is not None and g[0] == "T"
    return _clockish[a]


def run_case(case):
    kind = case[0]
    if kind == "word_abbrev":
        # relational: a number word in front of a unit spelling must mean what the digit in front of the same spelling means
        _, text, n, uname, spelling, ts_s = case
        unit_sp = text.split(" ", 1)[1]
        ref = res_obs(parse("{} {}".format(n, unit_sp), ts_s))
        if ref != ("D", n, uname):
            return {"o": "word_abbrev:skip", "skip": "the digit form of this unit spelling is itself not a duration (clock suffix or ambiguous word)", "nt": False}
        if text.split(" ", 1)[0] in ("a", "an") and unit_sp in ("m", "h", "m.", "h."):
            return {"o": "word_abbrev:skip", "skip": "'a m' / 'a h' read as am / ah", "nt": False}
        got = res_obs(parse(text, ts_s))
        ok = got == ref
        out = {"o": "word_abbrev:" + ("ok" if ok else "bad"), "nt": True}
        if not ok:
            out["v"] = [viol({"kind": "word_abbrev", "unit": uname, "spelling": unit_sp}, "{!r} -> {} but '{} {}' -> {}".format(text, fmt(got), n, unit_sp, fmt(ref)), ref, got)]
        return out
    if kind in ("digits", "word", "half"):
        _, text, n, uname, spelling, ts_s = case
        if kind == "digits" and _reads_as_clock(spelling):
            return {"o": "skip", "skip": "unit spelling that the library reads as a clock suffix after a number (h / m)", "nt": False}
        got = res_obs(parse(text, ts_s))
        exp = ("D", n, uname)
        ok = got == exp
        out = {"o": kind + ":" + ("ok" if ok else "bad"), "nt": n != 1}
        if not ok:
            sig = {"kind": kind, "unit": uname}
            if kind == "word":
                sig["word"] = spelling
            if kind == "digits":
                sig["spelling"] = spelling
            out["v"] = [viol(sig, "{!r} -> {} expected {}".format(text, fmt(got), fmt(exp)), exp, got)]
        return out
    if kind == "for":
        _, text, st, n, uname, ts_s = case
        y, m, d, hh, mm = st
        start = datetime(y, m, d, hh or 0, mm or 0)
        exp = ("I", T(y, m, d, hh, mm), add(start, n, uname))
        got = res_obs(parse(text, ts_s))
        ok = got == exp
        out = {"o": "for:" + ("ok" if ok else "bad"), "nt": n != 1}
        if not ok:
            out["v"] = [viol({"kind": "for", "unit": uname, "with_clock": hh is not None, "amount": n if n <= 1 else ">1"}, "{!r} -> {} expected {}".format(text, fmt(got), fmt(exp)), exp, got)]
        return out
    if kind == "forn":
        _, text, st, n, uname, key = case
        y, m, d, hh, mm = st
        start = datetime(y, m, d, hh or 0, mm or 0)
        exp = ("I", T(y, m, d, hh, mm), add(start, n, uname))
        got = res_obs(parse(text, TS))
        ok = got == exp
        out = {"o": "forn:" + ("ok" if ok else "bad"), "nt": True}
        if not ok:
            # is it the default depth limit that loses the reading? (the same text without the limit)
            got0 = res_obs(parse(text, TS, max_stack_depth=0))
            cause = "depth_limit_truncation" if got0 == exp else "other"
            out["v"] = [viol({"kind": "for_notation", "notation": key, "cause": cause}, "{!r} -> {} expected {} (without depth limit: {})".format(text, fmt(got), fmt(exp), fmt(got0)), exp, got)]
        return out
    if kind == "durrange2":
        _, text, a, b, n, ts_s = case
        a, b = date(*a), date(*b)
        ln = (b - a).days
        iv = ("I", T(a.year, a.month, a.day), T(b.year, b.month, b.day))
        r = parse(text, ts_s, max_stack_depth=0)
        got = res_obs(r)
        full = r is not None and r.resolution is not None and (r.resolution.mend - r.resolution.mstart) >= len(text) - 1
        ok = (got == iv and full) if ln == n else not (got == iv and full)
        out = {"o": "durrange2:" + ("ok" if ok else "bad"), "nt": True}
        if not ok:
            out["v"] = [viol({"kind": "durrange_long", "why": "consistent_range_not_accepted" if ln == n else "inconsistent_range_accepted"}, "{!r} (range is {} days, stated {}) -> {} span={}".format(text, ln, n, fmt(got), None if r is None or r.resolution is None else (r.resolution.mstart, r.resolution.mend)), None, got)]
        return out
    if kind == "durrange":
        _, text, ln, n, order, ts_s = case
        base = date(2018, 11, 15)
        b = refcal.add_days(base, ln)
        iv = ("I", T(base.year, base.month, base.day), T(b.year, b.month, b.day))
        r = parse(text, ts_s)
        got = res_obs(r)
        full = r is not None and r.resolution is not None and (r.resolution.mend - r.resolution.mstart) >= len(text) - 1
        if ln == n:
            ok = got == iv and full
            why = "consistent_range_not_accepted"
        else:
            ok = not (got == iv and full)
            why = "inconsistent_range_accepted"
        out = {"o": "durrange:" + ("ok" if ok else "bad"), "nt": True}
        if not ok:
            out["v"] = [viol({"kind": "durrange", "why": why, "order": order, "amount": n if n <= 1 else ">1"}, "{!r} (range is {} days, stated {}) -> {} span={}".format(text, ln, n, fmt(got), None if r is None or r.resolution is None else (r.resolution.mstart, r.resolution.mend)), None, got)]
        return out
    raise ValueError(kind)
