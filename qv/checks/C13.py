"""C13 — timeout honoured: bounded work between deadline checks, clean partial results.

Fault enumeration with a virtual clock: ctparse.timers.perf_counter is replaced by
a counter; one run with an unreachable deadline counts the clock events N of an
input, then for EVERY k in 0..N a run is made whose deadline falls between event k
and k+1.  Two clock models: 'reads' (time advances only when the library reads the
clock) and 'ticks' (time additionally advances at every scorer call and rule
invocation: the deadline can fall inside an expansion or inside the per-sequence
scoring loop)."""
import sys

from .. import runner
from ..common import lib, viol, ts_of
from ..obs import obs, fmt

PID = "C13"
LEVEL = "fault_enumeration"
RULE = (
    "For each input x clock model x max_stack_depth: N = number of clock events of the run with an unreachable deadline; every expiry point k in 0..N is executed "
    "(timeout = k + 0.5 on the virtual clock) for ctparse_gen and ctparse.  Oracle at every k: no exception; stream is a prefix (value, span, production, score) of the "
    "no-deadline stream; ctparse returns a best element of that prefix or an empty result; after the clock passed the deadline at most 2 scorings of initial sequences, "
    "at most R*L+2 scorings and R*L rule invocations happen (R rules, L longest match sequence) and at most ONE partial parse is still expanded or emitted - independent of the number of candidate sequences; timeout=0 never "
    "consults the deadline and equals the unreachable-deadline run.  A wide-stack input (729 candidate sequences) is included so that a check frequency that depends on the number of sequences shows.  One evaluation = one (input, model, depth, k) run pair; non-trivial = expiry point at which the run "
    "is actually cut short (stream shorter than the full one or deadline raised); distinct by construction."
)
ASSUMPTIONS = [
    "time advances only at modelled events (clock reads; in 'ticks' also scorer calls and rule invocations); time passing inside one regex call is not an expiry point",
    "post-deadline work is observed through a counting Scorer passed via scorer= and counting wrappers in the rule registry",
]

HUGE = 1e18

INPUTS_QUICK = ["tomorrow 5pm", "1", "1 1", "1 1 1", "monday 9-5", "gargelbabel", "next friday at 8 #x", "tomorrow 8 yesterday Sep 9 9", "1 x 1 x 1", "1 x 1 x 1 x 1 x 1"]
# wide initial stacks (>= 256 candidate sequences): a deadline check that is thinned out with the size of the stack (every len/128-th
# sequence, say) behaves exactly like the per-sequence check on everything smaller.  Quick tier: clock model 'reads', default depth,
# every expiry point up to the end of the initial-stack phases (4 * number of sequences + 64 events); thorough: every expiry point.
INPUTS_WIDE = ["1 1 1 1 1 1"]
INPUTS_THOROUGH = INPUTS_QUICK + INPUTS_WIDE + [
    "1 1 1 1",
    "1 1 1 1 1",
    "tomorrow 8 yesterday Sep 9 9 12 2023 1923",
    "8.5.2018 14:30 for 3 days",
    "between 3 and 4 tomorrow",
    "von 9 bis 17 uhr am montag",
    "12.5.",
    "",
    "early early morning",
    "5 5 5 pm",
    "mon tue wed",
]


class VClock:
    def __init__(self, mode):
        self.mode = mode
        self.now = 0
        self.deadline = None  # absolute virtual time after which the deadline has passed
        self.passed = False
        self.deadline_checks = 0
        self.reads = 0

    def _advance(self):
        self.now += 1
        if self.deadline is not None and self.now > self.deadline:
            self.passed = True
        return self.now

    def read(self):
        self.reads += 1
        if sys._getframe(1).f_code.co_name == "_tt":
            self.deadline_checks += 1
        return float(self._advance())

    def tick(self):
        if self.mode == "ticks":
            self._advance()


class Env:
    """installs the virtual clock, counting rule wrappers and provides the counting scorer"""

    def __init__(self):
        self.clock = None
        self.after = None
        self.installed = False

    def install(self):
        if self.installed:
            return
        import ctparse.timers as T
        from ctparse import rule as RU

        env = self
        T.perf_counter = lambda: env.clock.read()

        def mk(name, w):
            def counting(ts, *args):
                c = env.clock
                c.tick()
                if c.passed:
                    env.after["rules"] += 1
                return w(ts, *args)

            return counting

        for name, (w, preds) in list(RU.rules.items()):
            RU.rules[name] = (mk(name, w), preds)
        # rule-applicability analyses (the statement counts them next to rule applications and scorings): one per PartialParse._filter_rules call
        from ctparse.partial_parse import PartialParse as PP

        orig_filter = PP._filter_rules

        def counting_filter(pp_self, rules):
            c = env.clock
            if c is not None and c.passed and env.after is not None:
                env.after["analyses"] += 1
            return orig_filter(pp_self, rules)

        PP._filter_rules = counting_filter
        self.installed = True

    def scorer(self, inner):
        from ctparse.scorer import Scorer

        env = self

        class Counting(Scorer):
            def score(self, txt, ts, pp):
                c = env.clock
                c.tick()
                if c.passed:
                    env.after["scorings"] += 1
                    if all(isinstance(r, int) for r in pp.rules):
                        env.after["initial_scorings"] += 1
                    else:
                        # a child of the partial parse that is being expanded: its trace minus the last rule names the parent
                        env.after["elements"].add(tuple(pp.rules[:-1]))
                return inner.score(txt, ts, pp)

            def score_final(self, txt, ts, pp, prod):
                c = env.clock
                c.tick()
                if c.passed:
                    env.after["scorings"] += 1
                    env.after["elements"].add(tuple(pp.rules))  # same key as its children use: expanding and then emitting one element counts once
                return inner.score_final(txt, ts, pp, prod)

        return Counting()

    def _patch_model(self, m):
        """count the rows handed to the shipped model itself (a scorer-specific fast path bypasses any wrapping Scorer)"""
        model = getattr(m._DEFAULT_SCORER, "_model", None)
        if model is None or getattr(model, "_qv_patched", False):
            return
        env = self
        real = model.predict_log_proba

        def counting(X):
            if env.nb_mode:
                c = env.clock
                for doc in X:
                    c.tick()
                    if c.passed:
                        env.after["scorings"] += 1
                        if all(tok.isdigit() for tok in doc):
                            env.after["initial_scorings"] += 1
            return real(X)

        model.predict_log_proba = counting
        model._qv_patched = True

    nb_mode = False

    def run(self, mode, text, ts, depth, timeout, entry):
        """-> (stream observation or ctparse observation, stats, exception)"""
        cp, gen, m = lib()
        self.nb_mode = mode.endswith("+nb")
        mode = mode.replace("+nb", "")
        self.clock = VClock(mode)
        self.after = {"scorings": 0, "initial_scorings": 0, "rules": 0, "elements": set(), "analyses": 0}
        if timeout not in (0, HUGE):
            # start_time is the first read (value 1); _tt raises when read - 1 > timeout
            self.clock.deadline = 1 + timeout
        if self.nb_mode:
            self._patch_model(m)
            sc = None  # the shipped scorer object itself: work is observed at the model
        else:
            sc = self.scorer(m._DEFAULT_SCORER)
        exc = None
        out = None
        try:
            if entry == "gen":
                out = []
                for c in gen(text, ts=ts, timeout=timeout, max_stack_depth=depth, scorer=sc, latent_time=False):
                    if c is not None:
                        r = c.resolution
                        out.append((obs(r), r.mstart, r.mend, tuple(c.production), c.score))
            else:
                r = cp(text, ts=ts, timeout=timeout, max_stack_depth=depth, scorer=sc, latent_time=False)
                out = None if r is None else ((obs(r.resolution), tuple(r.production) if r.production else None, r.score) if r.resolution is not None else "EMPTY")
        except Exception as e:  # noqa
            exc = e
        self.after["elements"] = len(self.after["elements"])
        stats = dict(self.after, events=self.clock.now, reads=self.clock.reads, deadline_checks=self.clock.deadline_checks, passed=self.clock.passed)
        return out, stats, exc


_env = Env()
_base = {}


def _baseline(mode, text, ts_s, depth):
    key = (mode, text, ts_s, depth)
    if key not in _base:
        _env.install()
        ts = ts_of(ts_s)
        import time as _time

        t0 = _time.perf_counter()
        full, st, exc = _env.run(mode, text, ts, depth, HUGE, "gen")
        cost = _time.perf_counter() - t0
        if exc is not None:
            raise exc
        from ctparse import rule as RU
        from ..derivation import normalise, all_matches, maximal_sequences

        norm = normalise(text)
        ms = all_matches(norm)
        seqs = maximal_sequences(norm, ms) if ms else []
        L = max((len(s) for s in seqs), default=1)
        _base[key] = (full, st["events"], L, len(RU.rules), len(seqs), cost)
    return _base[key]


def init_worker():
    _env.install()


_BASE_SCRIPT = r"""
import sys, json
sys.path.insert(0, sys.argv[1]); sys.path.insert(0, sys.argv[2])
import logging, warnings
warnings.filterwarnings("ignore"); logging.disable(logging.CRITICAL)
from qv import runner
runner.setup_import_path()
from qv.checks import C13
C13.init_worker()
req = json.load(sys.stdin)
out = {}
for text, mode, depth in req["combos"]:
    b = C13._baseline(mode, text, req["ts"], depth)
    out["%s|%s|%d" % (text, mode, depth)] = [json.loads(json.dumps(b[0])), b[1], b[2], b[3], b[4], b[5]]
print(json.dumps(out))
"""


def _fresh_baselines(combos, ts_s):
    """reference runs (unreachable deadline) in ONE FRESH interpreter per input: the checking processes stay pristine, so a
    run that times out is the first thing they ever do with a text (state left behind by a timed-out run must not leak)"""
    import json
    import os
    import subprocess
    from concurrent.futures import ThreadPoolExecutor

    by_text = {}
    for c in combos:
        by_text.setdefault(c[0], []).append(c)

    def one(text):
        p = subprocess.run([sys.executable, "-c", _BASE_SCRIPT, runner.REPO, runner.HERE], input=json.dumps({"combos": by_text[text], "ts": ts_s}), capture_output=True, text=True, env=dict(os.environ, PYTHONWARNINGS="ignore", QV_REPO=runner.REPO))
        if p.returncode != 0:
            raise RuntimeError("baseline interpreter failed: " + p.stderr[-600:])
        return json.loads(p.stdout.strip().splitlines()[-1])

    out = {}
    with ThreadPoolExecutor(8) as ex:
        for r in ex.map(one, list(by_text)):
            out.update(r)
    return out


def _norm(x):
    import json

    return json.loads(json.dumps(x))


def plan(tier, seed):
    inputs = INPUTS_QUICK if tier == "quick" else INPUTS_THOROUGH
    ts_s = "2018-03-07T12:43:00"
    cand = []
    for text in inputs:
        for mode in ("reads", "ticks", "ticks+nb"):
            for depth in (10, 0):
                if mode == "ticks+nb" and depth == 0:
                    continue
                if depth == 0 and (len(text) > 20 or text in INPUTS_WIDE):
                    # without depth limit the production loop works through every one of the 729 sequences' expansions: one reference run takes > 10 min
                    continue
                cand.append((text, mode, depth))
    wide = set()
    if tier == "quick":
        for text in INPUTS_WIDE:
            cand.append((text, "reads", 10))
            wide.add((text, "reads", 10))
    fresh = _fresh_baselines(cand, ts_s)
    combos = []
    too_big = []
    # a combination costs about N runs of N events each: bounded by the number of expiry points N (a count, not a measured time, so that
    # the explored set is the same on every machine and under every load)
    max_n = 800 if tier == "quick" else 6000
    kcap = {}
    for text, mode, depth in cand:
        b = fresh["%s|%s|%d" % (text, mode, depth)]
        if (text, mode, depth) in wide:
            _base[(mode, text, ts_s, depth)] = (b[0], b[1], b[2], b[3], b[4], b[5])
            kcap[(text, mode, depth)] = min(b[1], 4 * b[4] + 64)
            combos.append((text, mode, depth, b[1]))
            continue
        if b[1] > max_n:
            too_big.append("{}|{}|depth{} (N={})".format(text, mode, depth, b[1]))
            continue
        _base[(mode, text, ts_s, depth)] = (b[0], b[1], b[2], b[3], b[4], b[5])
        combos.append((text, mode, depth, b[1]))

    def gen():
        for text, mode, depth, N in combos:
            for k in range(0, kcap.get((text, mode, depth), N) + 1):
                yield ("k", text, ts_s, mode, depth, k)
            if (text, mode, depth) in kcap:
                continue
            yield ("zero", text, ts_s, mode, depth, 0)
            # a run that timed out must leave nothing behind: timed run at expiry point k, then an unlimited run of the same text
            for k in sorted({0, N // 7, N // 3, N // 2, (2 * N) // 3}):
                yield ("after", text, ts_s, mode, depth, k)
            # a stream WITHOUT deadline is consumed step by step while another parse with a short deadline runs (and expires) in between:
            # the deadline belongs to one run, the unlimited stream must still deliver everything
            if mode == "reads":
                for j in (1, 2):
                    for kb in (0, 3, 20, 60):
                        yield ("overlap", text, ts_s, mode, depth, (j, kb))

    space = {
        "inputs": len(inputs),
        "clock_models": ["reads", "ticks", "ticks+nb (shipped scorer object passed as is; rows counted at the model)"],
        "depths": [10, 0],
        "expiry_points_per_combination": {"{}|{}|depth{}".format(t, m, d): kcap.get((t, m, d), N) + 1 for t, m, d, N in combos},
        "wide_stack_combinations_capped_to_initial_phases": {"{}|{}|depth{}".format(*c): "expiry points 0..{} of {} explored (thorough tier: all)".format(kc, _base[(c[1], c[0], ts_s, c[2])][1]) for c, kc in kcap.items()},
        "runs": sum(kcap.get((t, m, d), N) + 2 for t, m, d, N in combos) * 2,
        "combinations_outside_budget_not_explored": too_big,
    }
    return {"space": space, "cases": gen(), "chunk": 16, "hash_distinct": True}


def run_case(case):
    kind, text, ts_s, mode, depth, k = case
    ts = ts_of(ts_s)
    full, N, L, R, nseq, _cost = _baseline(mode, text, ts_s, depth)
    v = []
    sig = {"mode": mode}
    if kind == "overlap":
        j, kb = k
        cp, gen, m = lib()
        _env.clock = VClock("reads")
        _env.after = {"scorings": 0, "initial_scorings": 0, "rules": 0, "elements": set(), "analyses": 0}
        _env.nb_mode = False

        def ob(c):
            r = c.resolution
            return (obs(r), r.mstart, r.mend, tuple(c.production), c.score)

        got = []
        try:
            g = gen(text, ts=ts, timeout=0, max_stack_depth=depth, scorer=_env.scorer(m._DEFAULT_SCORER), latent_time=False)
            for _ in range(j):
                c = next(g, None)
                if c is None:
                    break
                got.append(ob(c))
            for other in ("tomorrow 5pm", "1 1"):
                list(gen(other, ts=ts, timeout=kb + 0.5, max_stack_depth=depth, scorer=_env.scorer(m._DEFAULT_SCORER), latent_time=False))
            got += [ob(c) for c in g if c is not None]
        except Exception as e:  # noqa
            v.append(viol(dict(sig, kind="raises", exc=type(e).__name__, api="overlap"), "{!r}: unlimited stream interleaved with a timed parse raised {!r}".format(text, e)))
            return {"o": "overlap", "nt": True, "v": v}
        if _norm(got) != _norm(full):
            v.append(viol(dict(sig, kind="deadline_of_another_run_applied"), "{!r} depth={}: a stream opened with timeout=0, stepped {} times, then two other texts parsed with timeout={} and the stream drained: {} candidates, alone {}".format(text, depth, j, kb + 0.5, len(got), len(full))))
        return {"o": "overlap", "nt": True, "v": v}
    if kind == "after":
        _env.run(mode, text, ts, depth, k + 0.5, "gen")
        out, st, exc = _env.run(mode, text, ts, depth, 0, "gen")
        if exc is not None:
            v.append(viol(dict(sig, kind="raises_after_timeout", exc=type(exc).__name__), "{!r}: unlimited run after a timed-out run raised {!r}".format(text, exc)))
        elif _norm(out) != _norm(full):
            v.append(viol(dict(sig, kind="timed_out_run_leaves_state"), "{!r} depth={} clock={}: after a run that expired at event {} the unlimited run yields {} candidates, the fresh-process reference {}".format(text, depth, mode, k + 1, len(out), len(full))))
        return {"o": "after", "nt": True, "v": v}
    if kind == "zero":
        out, st, exc = _env.run(mode, text, ts, depth, 0, "gen")
        if exc is not None:
            v.append(viol(dict(sig, kind="raises_timeout0", exc=type(exc).__name__), "{!r} timeout=0 raised {!r}".format(text, exc)))
        elif _norm(out) != _norm(full):
            v.append(viol(dict(sig, kind="timeout0_differs"), "{!r}: timeout=0 stream differs from the unreachable-deadline stream".format(text)))
        if st["deadline_checks"]:
            v.append(viol(dict(sig, kind="timeout0_reads_clock"), "{!r}: timeout=0 still consulted the clock for the deadline {} times".format(text, st["deadline_checks"])))
        return {"o": "zero", "nt": False, "v": v}
    timeout = k + 0.5
    out, st, exc = _env.run(mode, text, ts, depth, timeout, "gen")
    desc = "{!r} depth={} clock={} expiry after event {} of {}".format(text, depth, mode, k + 1, N)
    cut = False
    if exc is not None:
        v.append(viol(dict(sig, kind="raises", exc=type(exc).__name__, api="ctparse_gen"), "{}: ctparse_gen raised {!r}".format(desc, exc)))
        out = []
    else:
        out = _norm(out)
        full = _norm(full)
        if out != full[: len(out)]:
            i = next((i for i in range(min(len(out), len(full))) if out[i] != full[i]), min(len(out), len(full)))
            v.append(viol(dict(sig, kind="not_a_prefix"), "{}: candidate {} differs from the no-deadline stream ({} vs {})".format(desc, i, out[i] if i < len(out) else None, full[i] if i < len(full) else None)))
        cut = len(out) < len(full) or st["passed"]
        if st["initial_scorings"] > 2:
            v.append(
                viol(
                    dict(sig, kind="unbounded_work_after_deadline", phase="initial_sequences"),
                    "{}: {} initial match sequences were still scored after the deadline had passed ({} candidate sequences in total)".format(desc, st["initial_scorings"], nseq),
                )
            )
        if st["scorings"] > R * L + 2 or st["rules"] > R * L:
            v.append(viol(dict(sig, kind="unbounded_work_after_deadline", phase="any"), "{}: {} scorings and {} rule invocations after the deadline (bound R*L = {})".format(desc, st["scorings"], st["rules"], R * L)))
        if st["analyses"] > 1:
            v.append(
                viol(
                    dict(sig, kind="unbounded_work_after_deadline", phase="applicability_analysis"),
                    "{}: {} rule-applicability analyses were started after the deadline had passed ({} candidate sequences in total; at most one sequence may be in flight between two checks)".format(desc, st["analyses"], nseq),
                )
            )
        if st["elements"] > 1:
            v.append(
                viol(
                    dict(sig, kind="unbounded_work_after_deadline", phase="production_loop"),
                    "{}: {} different partial parses were still expanded or emitted after the deadline had passed (the parser must stop at the first check after the deadline, i.e. after finishing at most one)".format(desc, st["elements"]),
                )
            )
        if k >= N and (out != full or st["passed"] and False):
            v.append(viol(dict(sig, kind="deadline_beyond_run_cuts"), "{}: deadline after the last event still cut the stream".format(desc)))
    # single-result entry point at the same expiry point
    r, st2, exc2 = _env.run(mode, text, ts, depth, timeout, "one")
    if exc2 is not None:
        v.append(viol(dict(sig, kind="raises", exc=type(exc2).__name__, api="ctparse"), "{}: ctparse raised {!r}".format(desc, exc2)))
    elif exc is None:
        if not out:
            if r != "EMPTY":
                v.append(viol(dict(sig, kind="best_of_prefix"), "{}: prefix is empty but ctparse returned {}".format(desc, r)))
        else:
            best = max(c[4] for c in out)
            ok = r not in (None, "EMPTY") and any([c[0], c[3], c[4]] == _norm(r) for c in out if c[4] == best)
            if not ok:
                v.append(viol(dict(sig, kind="best_of_prefix"), "{}: ctparse returned {} which is not a best element of the {}-candidate prefix (best score {})".format(desc, r, len(out), best)))
    return {
        "o": "cut" if cut else "complete",
        "nt": cut,
        "v": v[:4],
        "st": {"runs": 2, "max_initial_scorings_after_deadline": st["initial_scorings"], "max_scorings_after_deadline": st["scorings"], "max_rule_invocations_after_deadline": st["rules"], "max_partial_parses_touched_after_deadline": st["elements"], "max_applicability_analyses_after_deadline": st["analyses"]},
    }
