"""C06 — every clock notation of one time of day resolves to that hour and minute.

Hour 0-23 x minute 0-59 x every applicable notation (latent off: value only);
named hours and quarter/half phrases; '<hour> in the <part of day>'; latent
anchoring against reference minutes on both sides of the requested minute on
ordinary and roll-over days."""
from datetime import datetime, timedelta

from .. import vocab
from ..common import parse, res_obs, viol, ts_of
from ..obs import T, fmt

PID = "C06"
LEVEL = "exploration"
RULE = (
    "Latent off: all 1440 minutes x notations {HH:MM, H:MM, HHhMM, 'HH.MM uhr', 'HH:MM uhr', h:mm am/pm in 6 spellings, HHMM (minutes divisible by 5: the documented military heuristic), "
    "'H uhr'/'Hh'/'H o'clock'/'h am|pm' for full hours}; every named-hour spelling x {bare, o'clock/uhr, quarter/half before/after phrases}; hours 1-12 x 'in the <part of day>' for every "
    "single-reading part-of-day spelling; 'H Uhr MM' with blanks for all 1440 minutes; spoken fractions (quarter/half before/after, digits and number words, hours 1-12) followed by an English / followed or preceded by a German part of day; "
    "hour 0 at night; 'uhr|h|HH:MM uhr am <Tageszeit>'.  Expected: that hour and minute, no date.  Latent on: 48 clock times x 2 notations x reference minutes {requested-1, requested, requested+1} on 5 days "
    "(ordinary, 31 Dec, 28 Feb, 29 Feb, month end): expected the first such time strictly after the reference minute.  Non-trivial = all judged cases except bare HH:MM; distinct = distinct (text, ts, latent)."
)
ASSUMPTIONS = [
    "'<clock> <part of day>': afternoon/evening/night move an hour 1-11 into the second half of the day, also for night ('3 at night' = 15:00: the code's convention, kept); hour 0 and hour 12 at night are the hour after midnight (0 uhr nachts, 12 uhr nachts, quarter to one at night = 00:45); '12 <fraction> in the morning' is not used",
    "hybrids of two notations ('8 uhr pm', '1200 uhr am mittag', 'eight pm') are not part of the enumerated notations",
    "12 am = 00, 12 pm = 12 (stated by the property); 'half <hour>' / 'halb <hour>' mean half before the hour (the code's convention, kept)",
    "bare dotted 'H.MM' is not used (reads as day.month); four-digit notation only within the documented heuristic",
]

TS = "2018-03-07T12:43:00"


def _ampm(h):
    """-> (12h number, 'am'|'pm')"""
    if h == 0:
        return 12, "am"
    if h < 12:
        return h, "am"
    if h == 12:
        return 12, "pm"
    return h - 12, "pm"


def clock_forms(h, m):
    out = [("HH:MM", "{:02d}:{:02d}".format(h, m)), ("HHhMM", "{:02d}h{:02d}".format(h, m)), ("HH.MM uhr", "{:02d}.{:02d} uhr".format(h, m)), ("HH:MM uhr", "{}:{:02d} Uhr".format(h, m))]
    if h < 10:
        out.append(("H:MM", "{}:{:02d}".format(h, m)))
    out.append(("H Uhr MM", "{} Uhr {:02d}".format(h, m)))
    h12, ap = _ampm(h)
    out += [
        ("h:mm am", "{}:{:02d} {}".format(h12, m, ap)),
        ("h:mmam", "{}:{:02d}{}".format(h12, m, ap)),
        ("h:mm a.m.", "{}:{:02d} {}.m.".format(h12, m, ap[0])),
        ("h.mm am", "{}.{:02d} {}".format(h12, m, ap)),
        ("hh:mm AM", "{:02d}:{:02d} {}".format(h12, m, ap.upper())),
    ]
    if m % 5 == 0:
        out.append(("HHMM", "{:02d}{:02d}".format(h, m)))
    if m == 0:
        out += [("H uhr", "{} uhr".format(h)), ("Hh", "{}h".format(h)), ("H Uhr", "{:02d} Uhr".format(h)), ("H o'clock", "{} o'clock".format(h)), ("h am", "{} {}".format(h12, ap)), ("ham", "{}{}".format(h12, ap)), ("h a.m.", "{} {}.m.".format(h12, ap[0]))]
    return out


def named_forms():
    out = []
    for n, alts in vocab.named_hours():
        for a in alts:
            out.append(("named", a, n, 0))
            out.append(("named uhr", a + " uhr", n, 0))
            out.append(("named o'clock", a + " o'clock", n, 0))
            prev = n - 1 if n > 1 else 0
            for q in vocab.lang("ruleQuarterBeforeHH"):
                out.append(("quarter before", q + " " + a, prev, 45))
            for q in vocab.lang("ruleQuarterAfterHH"):
                out.append(("quarter after", q + " " + a, n, 15))
            for q in vocab.lang("ruleHalfBeforeHH"):
                out.append(("half before", q + " " + a, prev, 30))
            for q in vocab.lang("ruleHalfAfterHH"):
                out.append(("half after", q + " " + a, n, 30))
    for n in range(1, 13):
        out.append(("quarter before digit", "quarter to {}".format(n), n - 1, 45))
        out.append(("quarter after digit", "quarter past {}".format(n), n, 15))
        out.append(("half before digit", "halb {}".format(n), n - 1, 30))
        out.append(("half after digit", "half past {}".format(n), n, 30))
        out.append(("viertel vor digit", "viertel vor {}".format(n), n - 1, 45))
        out.append(("viertel nach digit", "viertel nach {}".format(n), n, 15))
        # the hour of a spoken fraction followed by its clock word
        out.append(("fraction digit o'clock", "quarter past {} o'clock".format(n), n, 15))
        out.append(("fraction digit o'clock", "quarter to {} o'clock".format(n), n - 1, 45))
        out.append(("fraction digit o'clock", "half past {} oclock".format(n), n, 30))
        out.append(("fraction digit uhr", "viertel nach {} uhr".format(n), n, 15))
        out.append(("fraction digit uhr", "halb {} uhr".format(n), n - 1, 30))
    return out


def pod_forms():
    from .C04 import _single_reading

    out = []
    pm = ("afternoon", "evening", "night", "last")
    for name, alts in vocab.pods():
        if name in ("first", "last", "earlymorning", "lateevening"):
            continue
        for a in alts:
            if not _single_reading(a) and a != "afternoon":
                continue
            if a == "noon":
                continue  # '<hour> in the noon' is not an expression anybody writes
            for h in range(1, 13):
                exp = h + 12 if (h < 12 and any(p in name for p in pm)) else h
                if name == "night" and h == 12:
                    exp = 0  # 12 at night is midnight
                if name in ("morning", "forenoon") and h == 12:
                    continue
                en = a.isascii() and name != "noon" or a in ("noon",)
                text = "{} in the {}".format(h, a) if a in ("morning", "forenoon", "afternoon", "evening", "night") else "{} uhr {}".format(h, a)
                out.append(("hour in pod", text, exp, 0, name, h))
    # modified parts of day (compound names such as lateevening / earlyafternoon keep the +12h reading)
    for mod in ("late", "early", "spät", "früh"):
        for a, name in (("evening", "evening"), ("afternoon", "afternoon"), ("abends", "evening"), ("nachmittags", "afternoon"), ("morning", "morning"), ("morgens", "morning")):
            if mod.isascii() != a.isascii() and not (a in ("evening", "afternoon", "morning")):
                pass
            for h in range(1, 12):
                exp = h + 12 if name in pm else h
                if a in ("evening", "afternoon", "morning"):
                    if not mod.isascii():
                        continue
                    text = "at {} in the {} {}".format(h, mod, a)
                else:
                    if mod.isascii():
                        continue
                    text = "{} uhr {} {}".format(h, mod, a)
                out.append(("hour in modified pod", text, exp, 0, name, h))
    return out


def _pm_shift(bh, name):
    """the code's convention for '<clock time> <part of day>' (kept as the specification): afternoon/evening/night move an hour below 12 into the second half of the day;
    the hour after midnight is 'at night' as it stands (0 uhr nachts, quarter to one at night)"""
    if name == "night" and bh in (0, 12):
        return 0
    if name in ("afternoon", "evening", "night") and bh < 12:
        return bh + 12
    return bh


def pod_extra_forms():
    """-> [(key, text, hour, minute)]: hour 0 at night; spoken fractions followed / preceded by a part of day; clock notations followed by the German 'am <part of day>'"""
    out = []
    night = dict(vocab.pods())["night"]
    for a in night:
        if a.isascii() and a == "night":
            out.append(("hour 0 in pod", "0:30 at night", 0, 30))
            out.append(("hour 0 in pod", "00:15 at night", 0, 15))
        elif a.startswith("nacht"):
            out.append(("hour 0 in pod", "0 uhr " + a, 0, 0))
            out.append(("hour 0 in pod", "0:30 uhr " + a, 0, 30))
            out.append(("hour 0 in pod", "00:15 " + a, 0, 15))
    words_en = {1: "one", 2: "two", 3: "three", 4: "four", 5: "five", 6: "six", 7: "seven", 8: "eight", 9: "nine", 10: "ten", 11: "eleven", 12: "twelve"}
    words_de = {1: "eins", 2: "zwei", 3: "drei", 4: "vier", 5: "fünf", 6: "sechs", 7: "sieben", 8: "acht", 9: "neun", 10: "zehn", 11: "elf", 12: "zwölf"}
    fr = [("quarter to", -1, 45), ("quarter past", 0, 15), ("half past", 0, 30), ("halb", -1, 30), ("viertel vor", -1, 45), ("viertel nach", 0, 15)]
    pods_en = [("in the morning", "morning"), ("in the afternoon", "afternoon"), ("in the evening", "evening"), ("at night", "night")]
    pods_de = [("morgens", "morning"), ("vormittags", "forenoon"), ("nachmittags", "afternoon"), ("abends", "evening"), ("nachts", "night")]
    for h in range(1, 13):
        for f, dh, mi in fr:
            bh = h + dh if h + dh > 0 else 0
            en = f.isascii() and f != "halb"
            for hw in (str(h), words_en[h] if en else words_de[h]):
                for ptxt, name in (pods_en if en else pods_de):
                    if name == "forenoon" and not (6 <= bh <= 11):
                        continue
                    if bh == 12 and name == "morning":
                        continue  # 'quarter past twelve in the morning': the 12 is the hour after midnight for a reader, the hour after noon for the code
                    exp = _pm_shift(bh, name)
                    out.append(("fraction in pod", "{} {} {}".format(f, hw, ptxt), exp, mi))
                    if not en:
                        out.append(("pod fraction", "{} {} {}".format(ptxt, f, hw), exp, mi))
    # German 'am <Tageszeit>' after the uhr / h notations ('am' must not be read as a.m.)
    for noun, name, hours in (("mittag", "noon", (12,)), ("abend", "evening", tuple(range(5, 12))), ("nachmittag", "afternoon", (12, 1, 2, 3, 4, 5, 6))):
        for h in hours:
            eh = _pm_shift(h, name)
            out.append(("uhr am pod", "{} uhr am {}".format(h, noun), eh, 0))
            out.append(("uhr am pod", "um {} Uhr am {}".format(h, noun.capitalize()), eh, 0))
            out.append(("uhr am pod", "{}h am {}".format(h, noun), eh, 0))
            out.append(("uhr am pod", "{}:30 uhr am {}".format(h, noun), eh, 30))
            out.append(("uhr am pod", "{}.15 uhr am {}".format(h, noun), eh, 15))
    return out


def plan(tier, seed):
    named = named_forms()
    pods = pod_forms()
    pods = pods + [(k, t, h, m, None, None) for k, t, h, m in pod_extra_forms()]
    days = ["2018-03-07", "2019-12-31", "2019-02-28", "2020-02-29", "2018-04-30"]
    lat_times = [(h, m) for h in range(24) for m in ((0, 30) if tier == "quick" else (0, 1, 30, 59))]

    def gen():
        for h in range(24):
            for m in range(60):
                for key, text in clock_forms(h, m):
                    yield ("off", key, text, h, m, TS)
        for key, text, h, m in named:
            yield ("off", key, text, h, m, TS)
        for key, text, h, m, pod, hh in pods:
            yield ("off", key, text, h, m, TS)
        for (h, m) in lat_times:
            for key, text in clock_forms(h, m)[:1] + [f for f in clock_forms(h, m) if f[0] in ("h:mm am", "H o'clock", "H uhr", "Hh", "h am", "H Uhr MM")]:
                for d in days:
                    base = datetime.fromisoformat(d).replace(hour=h, minute=m)
                    for delta, sec in ((-1, 59), (0, 0), (0, 30), (1, 0)):
                        ts = (base + timedelta(minutes=delta)).replace(second=sec)
                        if ts.date().isoformat() != d and False:
                            continue
                        yield ("on", key, text, h, m, ts.isoformat())

    space = {
        "minutes": 1440,
        "clock_cases_latent_off": sum(len(clock_forms(h, m)) for h in range(24) for m in range(60)),
        "named_hour_phrases": len(named),
        "hour_in_part_of_day": len(pods),
        "latent_clock_times": len(lat_times),
        "latent_days": days,
        "latent_offsets": ["-1min:59s", "0", "+30s", "+1min"],
    }
    return {"space": space, "cases": gen(), "chunk": 256, "hash_distinct": tier == "quick"}


def run_case(case):
    mode, key, text, h, m, ts_s = case
    ts = ts_of(ts_s)
    if mode == "off":
        got = res_obs(parse(text, ts, latent_time=False))
        ok = got is not None and got[0] == "T" and got[1:4] == (None, None, None) and got[4] == h and (got[5] or 0) == m and got[6] is None and got[7] is None
        exp = T(hour=h, minute=m)
    else:
        got = res_obs(parse(text, ts, latent_time=True))
        d = ts.date() if (h, m) > (ts.hour, ts.minute) else (ts + timedelta(days=1)).date()
        exp = T(d.year, d.month, d.day, h, m)
        ok = got == exp
    out = {"o": mode + ":" + ("ok" if ok else "bad"), "nt": key != "HH:MM" or mode == "on"}
    if not ok:
        sig = {"kind": mode, "notation": key}
        if key in ("h:mm am", "h:mmam", "h:mm a.m.", "h.mm am", "hh:mm AM", "h am", "ham", "h a.m.") and h == 0:
            sig["twelve_am"] = True
        if key == "hour in pod":
            # classify the misreading so that a known finding can name it precisely
            sig["connector"] = "in the" if " in the " in text else "uhr"
            if got is not None and got[0] == "T" and None not in got[1:4] and got[4] is None and got[7] is not None and str(got[3]) == text.split()[0]:
                sig["misreading"] = "day_of_month+part_of_day"
            else:
                sig["misreading"] = "other"
        out["v"] = [viol(sig, "{!r} at ts={} latent={} -> {} expected {}".format(text, ts_s, mode, fmt(got), fmt(exp)), exp, got)]
    return out
