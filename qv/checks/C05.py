"""C05 — absolute dates/times mean what they say, independent of the reference time.

Every valid calendar date 1990-2029 x every notation x reference times; boundary
dates x clock times x notations for the date+clock clause."""
from datetime import date

from .. import refcal, vocab
from ..common import parse, res_obs, viol, ts_of
from ..obs import T, fmt

PID = "C05"
LEVEL = "exploration"
RULE = (
    "Dates: quick = all dates of 1999, 2000, 2024 + all month ends and month starts of every year 1990-2029; thorough = all 14,610 dates 1990-2029.  Notations: d.m.yyyy, dd.mm.yyyy, "
    "d/m/yyyy, d-m-yyyy, dd/mm/yyyy, dd-mm-yyyy, d.m.yy (2000-2029), 'd. <Monat> yyyy', 'd <Month> yyyy', '<Month> dth yyyy', 'dth of <Month> yyyy'; each at several reference times (answer must equal the "
    "written date at all of them).  Date+clock: boundary dates x clock strings x notations, both orders.  Excluded and counted: month-name notations whose 4-digit year reads as a 24h time "
    "with minutes divisible by 5 (2000, 2005, ..., 2025), as the property states.  Non-trivial = every judged case (expected value is the written date); distinct = distinct (text, ts)."
)
ASSUMPTIONS = ["refcal validity of the enumerated dates", "two-digit years are written only for 2000-2029 (the code's fixed 20yy window in dd.mm.yy)"]

SUFFIX = {1: "st", 2: "nd", 3: "rd", 21: "st", 22: "nd", 23: "rd", 31: "st"}
CLOCKS = [("00:00", 0, 0), ("0:05", 0, 5), ("09:30", 9, 30), ("01:00", 1, 0), ("12:05", 12, 5), ("12:00", 12, 0), ("14:30", 14, 30), ("23:59", 23, 59), ("5pm", 17, 0), ("8 uhr", 8, None), ("17 uhr", 17, None)]


def _ord(n):
    return "{}{}".format(n, SUFFIX.get(n, "th"))


def military_ambiguous(y):
    hh, mm = divmod(y, 100)
    return hh <= 23 and mm <= 59 and mm % 5 == 0


def notations(d):
    months = dict(vocab.months())
    en = vocab.canon(months[d.month], (vocab.EN_MONTH[d.month - 1],))
    de = vocab.canon(months[d.month], (vocab.DE_MONTH[d.month - 1],))
    out = [
        ("d.m.yyyy", "{}.{}.{}".format(d.day, d.month, d.year)),
        ("dd.mm.yyyy", "{:02d}.{:02d}.{}".format(d.day, d.month, d.year)),
        ("d/m/yyyy", "{}/{}/{}".format(d.day, d.month, d.year)),
        ("d-m-yyyy", "{}-{}-{}".format(d.day, d.month, d.year)),
        ("dd/mm/yyyy", "{:02d}/{:02d}/{}".format(d.day, d.month, d.year)),
        ("dd-mm-yyyy", "{:02d}-{:02d}-{}".format(d.day, d.month, d.year)),
        ("d. Monat yyyy", "{}. {} {}".format(d.day, de, d.year)),
        ("d Month yyyy", "{} {} {}".format(d.day, en, d.year)),
        ("Month dth yyyy", "{} {} {}".format(en, _ord(d.day), d.year)),
        ("Month d, yyyy", "{} {}, {}".format(en, d.day, d.year)),
        ("dth of Month yyyy", "{} of {} {}".format(_ord(d.day), en, d.year)),
    ]
    if d.year >= 2000:
        out.append(("d.m.yy", "{}.{}.{:02d}".format(d.day, d.month, d.year % 100)))
        out.append(("dd.mm.yy", "{:02d}.{:02d}.{:02d}".format(d.day, d.month, d.year % 100)))
    return out


NAMED = ("d. Monat yyyy", "d Month yyyy", "Month dth yyyy", "Month d, yyyy", "dth of Month yyyy")


def _dates(tier):
    if tier == "thorough":
        return refcal.cycle(1990, 2029)
    out = []
    for y in (1999, 2000, 2024):
        out += refcal.cycle(y, y)
    for y in range(1990, 2030):
        for m in range(1, 13):
            out.append(date(y, m, 1))
            out.append(date(y, m, refcal.month_len(y, m)))
    return list(dict.fromkeys(out))


def plan(tier, seed):
    dates = _dates(tier)
    edge = [t.isoformat() for t in refcal.EDGE_TS]
    ts_list = [edge[3], edge[1], edge[8]] if tier == "quick" else [edge[0], edge[1], edge[3], edge[6], edge[8], edge[11]]
    bdates = [d for d in dates if d.day in (1, 5, 12, 29, 31) and d.year in ((1999, 2024) if tier == "quick" else range(1990, 2030, 1))]
    bdates = [d for d in bdates if d.month in ((1, 2, 3, 12) if tier == "thorough" else (2, 3, 12))]

    def gen():
        for d in dates:
            for key, text in notations(d):
                for ts in (ts_list if (tier != "quick" or d.day in (1, 28, 29, 30, 31)) else ts_list[:2]):
                    yield ("date", key, text, (d.year, d.month, d.day), None, ts)
        for d in bdates:
            for key, text in notations(d):
                for ctext, h, mi in CLOCKS:
                    for ts in ts_list[:2]:
                        yield ("dt", key, text + " " + ctext, (d.year, d.month, d.day), (h, mi), ts)
                        yield ("td", key, ctext + " " + text, (d.year, d.month, d.day), (h, mi), ts)
                        if ctext.endswith("uhr") and ts == ts_list[0]:
                            # connector + 'N uhr' directly in front of the date (the number behind 'uhr' is the day, not a minute)
                            yield ("td", key, "um " + ctext + " " + text, (d.year, d.month, d.day), (h, mi), ts)
                            yield ("td", key, "at " + ctext + " " + text, (d.year, d.month, d.day), (h, mi), ts)
                    # date, comma, clock ('05.03.2019, 14:30')
                    yield ("dt", key, text + ", " + ctext, (d.year, d.month, d.day), (h, mi), ts_list[0])
        # the valid notation straight after a look-alike in which ONE blank is an unmatched character ('05.03.2019@09:30', '23 April_2018'):
        # what an earlier text looked like between its tokens must not decide how this one is read
        for d in bdates:
            for key, text in notations(d):
                ctext, h, mi = CLOCKS[0]
                for full, hm in ((text, None), (text + " " + ctext, (h, mi))):
                    for i, ch in enumerate(full):
                        if ch == " ":
                            for junk in "@_":
                                yield ("after:" + full[:i] + junk + full[i + 1 :], key, full, (d.year, d.month, d.day), hm, ts_list[0])

    space = {"dates": len(dates), "notations": 12, "reference_times": len(ts_list), "boundary_dates_for_clock_clause": len(bdates), "clock_strings": len(CLOCKS)}
    return {"space": space, "cases": gen(), "chunk": 256, "hash_distinct": tier == "quick"}


def run_case(case):
    kind, key, text, ymd, hm, ts_s = case
    y, m, d = ymd
    if key in NAMED and military_ambiguous(y):
        return {"o": "excluded", "skip": "month-name notation with a year that reads as hh:mm, mm % 5 == 0 (documented military-time ambiguity)", "nt": False}
    exp = T(y, m, d) if hm is None else T(y, m, d, hm[0], hm[1])
    if kind.startswith("after:"):
        try:
            parse(kind[6:], ts_s)
        except Exception:
            pass  # what the look-alike itself does is C01's business
        kind = "after_lookalike"
    got = res_obs(parse(text, ts_s))
    if hm is not None and hm[1] is None and got is not None and got[0] == "T" and got[5] == 0:
        got = got[:5] + (None,) + got[6:]  # '8 uhr' may legitimately carry minute 0 or no minute
    out = {"o": kind + ":" + ("ok" if got == exp else "bad"), "nt": True}
    if got != exp:
        out["v"] = [viol({"kind": kind, "notation": key}, "{!r} at ts={} -> {} expected {}".format(text, ts_s, fmt(got), fmt(exp)), exp, got)]
    return out
