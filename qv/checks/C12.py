"""C12 — a parse is a pure function of its arguments: no history, threads or hash seed.

Four explorers over one pool P of argument tuples chosen to collide, all executing
the real code; every worker task starts from a pristine fork of a process that has
imported the library but never parsed anything:

 A  reference table: P evaluated in fresh interpreters under several PYTHONHASHSEED values
 B  call histories: every sequence of CALL/OPEN/STEP/ABANDON/FAIL operations up to a depth,
    every observation compared with the reference table, module-state fingerprint after every op
 C  generator-step interleavings: every merge of the next() steps of two candidate streams
 D  thread schedules: deterministic 2-thread scheduler (sys.settrace baton), every schedule with
    at most one preemption at call (quick) / line (thorough) granularity
 E  (thorough) free-running 8-thread stress with a 1 microsecond switch interval: race-detector complement
"""
import itertools
import json
import os
import subprocess
import sys

from .. import runner
from ..common import viol

PID = "C12"
LEVEL = "model_checking"
RULE = (
    "States = (fingerprint of all module-level mutable state of ctparse.* incl. rule registry, compiled patterns, scorer model, caller-side scorer objects; "
    "progress vector of open candidate streams); transitions = operations CALL(p), OPEN(p), STEP(i), ABANDON(i), FAIL executed on the real code.  ALL histories up to the depth "
    "bound, ALL merges of the steps of two streams (pairs of short streams), ALL 2-thread schedules with <=1 preemption at the stated granularity are executed; every observation "
    "(value, span, production, score, subject, labels; or the exception type) must equal the fresh-process reference table, which must itself be identical under every enumerated "
    "PYTHONHASHSEED; additionally each thread is profiled alone at LINE granularity for points at which module-level state of ctparse.* changes, and every schedule that preempts "
    "right after such a write point is executed (on a library without shared writes there are none); the fingerprint must equal its initial value after every operation; yielded candidates must not change afterwards.  "
    "traces_validated_against_impl = histories + merges + schedules executed."
)
ASSUMPTIONS = [
    "preemption points are call events (quick) / line events (thorough) in frames of the ctparse package; bytecode-level preemption inside one line and real parallelism inside regex (GIL released) are not explored",
    "hash seeds are an enumerated configuration list, not an exhaustive space",
    "the random scorer is excluded from the pool (its generator state changes by design); scorers passed by the caller are the constant scorer and a NaiveBayesScorer built from the shipped model file",
]

TS1 = "2018-03-07T12:43:00"
TS2 = "2020-02-29T23:59:30"
POOL = [
    {"text": "tomorrow 5pm", "ts": TS1, "kw": {}},
    {"text": "tomorrow 5pm", "ts": TS2, "kw": {}},
    {"text": "9-5", "ts": TS1, "kw": {}},
    {"text": "9-5", "ts": TS1, "kw": {"latent_time": False}},
    {"text": "at 5 tomorrow", "ts": TS1, "kw": {"scorer": "dummy"}},
    {"text": "gargelbabel", "ts": TS1, "kw": {}},
    {"text": "#fun #x", "ts": TS1, "kw": {}},
    {"text": None, "ts": TS1, "kw": {}},  # a call that fails
    {"text": "mon 8 #a", "ts": TS1, "kw": {"max_stack_depth": 0, "scorer": "nb"}},
    {"text": "5pm", "ts": TS1, "kw": {"relative_match_len": 0.5}},
    # values that collide on coarse keys (same month, different year; leap day with and without year)
    {"text": "29.02.", "ts": TS1, "kw": {}},
    {"text": "29.02.2019 9-5", "ts": TS1, "kw": {}},
    {"text": "29.02.2020", "ts": TS2, "kw": {"latent_time": False}},
    # the same tokens at two different character offsets (a value cached or hoisted per token would carry the wrong span)
    {"text": "monday 5pm", "ts": TS1, "kw": {}},
    {"text": "lunch monday 5pm", "ts": TS1, "kw": {}},
    {"text": "on monday", "ts": TS1, "kw": {}},
    {"text": "zz on monday", "ts": TS1, "kw": {}},
    {"text": "may 8th", "ts": TS1, "kw": {}},
    {"text": "xx may 8th", "ts": TS1, "kw": {}},
    {"text": "eight tomorrow", "ts": TS1, "kw": {"latent_time": False}},
    {"text": "zz eight tomorrow", "ts": TS1, "kw": {"latent_time": False}},
    {"text": "noon", "ts": TS1, "kw": {}},
    {"text": "at noon", "ts": TS1, "kw": {}},
    # same text, same reference year, different month / different text, same reference time (memos keyed by one component of ts)
    {"text": "2020", "ts": "2019-02-05T10:17:00", "kw": {}},
    {"text": "2020", "ts": "2019-11-05T10:17:00", "kw": {}},
    {"text": "1430", "ts": "2019-11-05T10:17:00", "kw": {}},
    # a repeated hashtag next to different ones (a set-based de-duplication would order labels by string hash)
    {"text": "#bb call #aa tomorrow 5pm #bb #cc #dd", "ts": TS1, "kw": {}},
    # weekday + day of month (rrule search), twice with different values; a range that fires the rule the shipped vocabulary does not know
    {"text": "sunday 31st", "ts": TS1, "kw": {}},
    {"text": "friday 13th", "ts": TS1, "kw": {}},
    {"text": "12.12.2022 to 14.12.2022 for 2 days", "ts": TS1, "kw": {}},
    {"text": "12.12.2022 to 14.12.2022 for 2 days", "ts": TS1, "kw": {"scorer": "nb"}},
    {"text": "9-5:30", "ts": TS1, "kw": {}},
    # the same words in another letter case (a memo keyed by the lower-cased text would hand back the other call's matches: subject words keep their case)
    {"text": "zzq tomorrow at 5pm xqz #w", "ts": TS1, "kw": {}},
    {"text": "zzq Tomorrow at 5PM xqz #W", "ts": TS1, "kw": {}},
    # the same match layout with and without an unmatched character between two tokens (a memo keyed by match positions would carry the gap decision over)
    {"text": "05.03.2019@09:30", "ts": TS1, "kw": {}},
    {"text": "05.03.2019 09:30", "ts": TS1, "kw": {}},
    # a call in which a PRODUCTION raises (reference time at the edge of the datetime range): it fails the same way every time and leaves nothing behind
    {"text": "tomorrow", "ts": "9999-12-31T12:00:00", "kw": {}},
    {"text": "tomorrow", "ts": TS1, "kw": {}},
    # a caller-supplied naive-Bayes scorer with another model, on texts the default scorer also sees (what one model computed is not the other's)
    {"text": "tomorrow 5pm", "ts": TS1, "kw": {"scorer": "nb2"}},
    {"text": "9-5", "ts": TS1, "kw": {"scorer": "nb2"}},
    {"text": "monday 5pm", "ts": TS1, "kw": {"scorer": "nb2"}},
    # a word whose production takes no argument from the text (a value hoisted to module level would be shared by every call and every open stream)
    {"text": "midnight", "ts": TS1, "kw": {"latent_time": False}},
    {"text": "zz midnight", "ts": TS1, "kw": {"latent_time": False}},
]
TS_COMPONENT = [23, 24, 25]
SHIFT_PAIRS = [(13, 14), (15, 16), (17, 18), (19, 20), (21, 22), (41, 42)]
FAIL = 7
CALLABLE = list(range(13)) + [13, 14, 23, 24, 25, 27, 28, 29, 30, 31, 32, 33, 34, 35, 36, 37, 38, 39, 40]  # history alphabet (the offset-shift pairs beyond #14 are exercised by the stream merges)
OPENABLE = [0, 3, 5, 9, 10, 13, 38]
MERGE_POOL = [0, 1, 3, 4, 5, 8, 9, 10, 11, 12]
SCHED_PAIRS_QUICK = [(9, 6, "one", "one"), (9, 9, "gen", "one")]
SCHED_PAIRS_THOROUGH = SCHED_PAIRS_QUICK + [(9, 0, "one", "gen"), (9, 4, "one", "gen"), (0, 3, "one", "gen"), (4, 4, "gen", "gen"), (8, 0, "gen", "one")]
WSCAN_PAIRS = [(9, 9, "one", "one"), (9, 0, "one", "gen"), (0, 13, "gen", "one"), (27, 28, "one", "one"), (27, 27, "one", "one")]
LINE_PAIRS_THOROUGH = [(9, 6, "one", "one"), (9, 4, "one", "gen")]
HASH_SEEDS = [0, 1, 2, 4294967295]

_scorers = {}


def _scorer(name):
    if name is None:
        return None
    if name not in _scorers:
        from ctparse.scorer import DummyScorer
        from ctparse.nb_scorer import NaiveBayesScorer

        if name == "dummy":
            _scorers[name] = DummyScorer()
        elif name == "nb2":
            # a second naive-Bayes scorer with ANOTHER model (trained here on hand-written traces: no parse is needed to build it)
            from ctparse.nb_scorer import train_naive_bayes

            X = [["128"], ["128", "ruleHHMM"], ["112"], ["112", "ruleTomorrow"], ["112", "128", "ruleHHMM", "ruleTomorrow"], ["112", "128", "ruleHHMM", "ruleTomorrow", "ruleDateTOD"],
                 ["128", "123", "128", "ruleHHMM"], ["128", "123", "128", "ruleHHMM", "ruleHHMM", "ruleTODTOD"], ["102", "ruleNamedDOW"], ["102", "ruleNamedDOW", "ruleLatentDOW"],
                 ["102", "128", "ruleHHMM", "ruleNamedDOW", "ruleLatentDOW", "ruleDateTOD"], ["108", "ruleDOM1"], ["108", "ruleDOM1", "ruleLatentDOM"], ["124", "ruleDDMM", "ruleLatentDOY"]]
            y = [False, True, True, False, False, True, True, False, True, False, False, True, True, False]
            _scorers[name] = NaiveBayesScorer(train_naive_bayes(X, y))
        else:
            _scorers[name] = NaiveBayesScorer.from_model_file(os.path.join(runner.REPO, "ctparse", "models", "model.pbz"))
    return _scorers[name]


def _kw(p):
    kw = dict(p["kw"])
    if "scorer" in kw:
        kw["scorer"] = _scorer(kw["scorer"])
    kw["timeout"] = 0
    return kw


def _oc(c):
    from ..obs import obs

    if c is None:
        return None
    r = c.resolution
    return json.loads(json.dumps([obs(r), None if r is None else [r.mstart, r.mend], None if c.production is None else list(c.production), c.score, c.subject, c.labels]))


def call_one(i):
    from ..common import lib, ts_of

    p = POOL[i]
    try:
        return _oc(lib()[0](p["text"], ts=ts_of(p["ts"]), **_kw(p)))
    except Exception as e:
        return ["exc", type(e).__name__]


def open_gen(i):
    from ..common import lib, ts_of

    p = POOL[i]
    return lib()[1](p["text"], ts=ts_of(p["ts"]), **_kw(p))


def call_gen(i):
    try:
        return [_oc(c) for c in open_gen(i)]
    except Exception as e:
        return ["exc", type(e).__name__]


_REF_SCRIPT = r"""
import sys, json
sys.path.insert(0, sys.argv[1]); sys.path.insert(0, sys.argv[2])
import logging, warnings
warnings.filterwarnings("ignore"); logging.disable(logging.CRITICAL)
from qv import runner
runner.setup_import_path()
from qv.checks import C12
from qv import sched, alphabet
from qv.common import lib, ts_of
sel = [int(x) for x in sys.argv[4].split(",")] if len(sys.argv) > 4 and sys.argv[4] else list(range(len(C12.POOL)))
what = sys.argv[5] if len(sys.argv) > 5 else "both"
out = {"one": {}, "gen": {}}
for i in sel:
    if what in ("one", "both"):
        out["one"][i] = C12.call_one(i)
    if what in ("gen", "both"):
        out["gen"][i] = C12.call_gen(i)
if what != "both":
    print(json.dumps(out)); sys.exit(0)
out["one"] = [out["one"][i] for i in range(len(C12.POOL))]
out["gen"] = [out["gen"][i] for i in range(len(C12.POOL))]
corp = []
for text, ts in alphabet.corpus_sentences():
    corp.append(C12._oc(lib()[0](text, ts=ts_of(ts + ":00"), timeout=0)))
out["corpus"] = corp
if len(sys.argv) > 3 and sys.argv[3] == "counts":
    cnt = {}
    for gran, pairs in (("call", C12.SCHED_PAIRS_THOROUGH), ("line", C12.LINE_PAIRS_THOROUGH)):
        for (a, b, ka, kb) in pairs:
            res, counts, taken = sched.run([C12.body(a, ka), C12.body(b, kb)], runner.REPO + "/ctparse/", gran)
            cnt["%s:%d:%d:%s:%s" % (gran, a, b, ka, kb)] = counts
    out["counts"] = cnt
print(json.dumps(out))
"""


def body(i, kind):
    return (lambda: call_one(i)) if kind == "one" else (lambda: call_gen(i))


def _interp(hash_seed, args):
    env = dict(os.environ, PYTHONHASHSEED=str(hash_seed), PYTHONWARNINGS="ignore", QV_REPO=runner.REPO)
    p = subprocess.run([sys.executable, "-c", _REF_SCRIPT, runner.REPO, runner.HERE] + args, capture_output=True, text=True, env=env)
    if p.returncode != 0:
        raise RuntimeError("reference interpreter failed: " + p.stderr[-800:])
    return json.loads(p.stdout.strip().splitlines()[-1])


def fresh_reference(hash_seed, counts=False):
    """all pool entries + corpus evaluated one after the other in ONE fresh interpreter (used for the hash-seed comparison)"""
    return _interp(hash_seed, ["counts" if counts else "-"])


def isolated_reference():
    """every pool entry evaluated in its OWN fresh interpreter (one for ctparse, one for ctparse_gen): the reference
    table must not itself depend on the order in which the pool is evaluated"""
    from concurrent.futures import ThreadPoolExecutor

    jobs = [(i, w) for i in range(len(POOL)) for w in ("one", "gen")]
    with ThreadPoolExecutor(8) as ex:
        res = list(ex.map(lambda j: _interp(0, ["-", str(j[0]), j[1]]), jobs))
    one = [None] * len(POOL)
    gen = [None] * len(POOL)
    for (i, w), r in zip(jobs, res):
        if w == "one":
            one[i] = r["one"][str(i)]
        else:
            gen[i] = r["gen"][str(i)]
    return one, gen


REF = None
FP0 = None
FP_EVERY_OP = False


def _histories(depth, call_alpha=None, open_alpha=None):
    """all operation sequences up to `depth` with at most 2 open streams"""
    out = []
    call_alpha = CALLABLE if call_alpha is None else call_alpha
    open_alpha = OPENABLE if open_alpha is None else open_alpha

    def rec(ops, open_streams, d):
        if ops:
            out.append(tuple(ops))
        if d == 0:
            return
        for i in call_alpha:
            if i != FAIL:
                rec(ops + [("CALL", i)], open_streams, d - 1)
        rec(ops + [("FAIL", FAIL)], open_streams, d - 1)
        if len([s for s in open_streams if s]) < 2:
            for i in open_alpha:
                rec(ops + [("OPEN", i)], open_streams + [True], d - 1)
        for k, alive in enumerate(open_streams):
            if alive:
                rec(ops + [("STEP", k)], open_streams, d - 1)
                rec(ops + [("ABANDON", k)], open_streams[:k] + [False] + open_streams[k + 1 :], d - 1)

    rec([], [], depth)
    return out


def plan(tier, seed):
    global REF, FP_EVERY_OP
    FP_EVERY_OP = tier == "thorough"
    REF = fresh_reference(0, counts=True)
    one, gen_ = isolated_reference()
    REF["order_dependent"] = [i for i in range(len(POOL)) if one[i] != REF["one"][i] or gen_[i] != REF["gen"][i]]
    REF["one"], REF["gen"] = one, gen_
    _scorer("dummy"), _scorer("nb"), _scorer("nb2")  # built once before the workers fork (object construction only, no parse)
    depth = 3 if tier == "quick" else 4
    if tier == "quick":
        # depth <= 2 over the full alphabet, depth 3 over a reduced one (every kind of collision still present)
        hist = list(dict.fromkeys(_histories(2) + _histories(3, call_alpha=[0, 1, 3, 5, 6, 10, 11, 23, 24, 2, 31], open_alpha=[0, 3, 9, 10])))
    else:
        # depth <= 3 over the full alphabet, depth 4 over a reduced one (the full depth-4 product is > 2 million histories)
        hist = list(dict.fromkeys(_histories(3) + _histories(4, call_alpha=[0, 1, 3, 5, 6, 10, 11, 23, 24, 2, 31, 33, 35, 37, 39], open_alpha=[0, 3, 9, 10, 38])))
    lens = [len(g) if isinstance(g, list) and (not g or g[0] != "exc") else 0 for g in REF["gen"]]
    # three-party histories: a stream is opened and stepped, one call completes (or fails), ANOTHER call completes, then the stream is drained
    # (state handed from the first call to the second while the stream still uses it); depth 5+ in operations, enumerated as a directed family
    three = []
    for A in (OPENABLE + [1] if tier == "quick" else sorted(set(OPENABLE + MERGE_POOL))):
        for k in (1, 2):
            if k > lens[A]:
                continue
            for B in (5, 9, FAIL):
                for C in CALLABLE:
                    if C == FAIL:
                        continue
                    ops = [("OPEN", A)] + [("STEP", 0)] * k + [("FAIL" if B == FAIL else "CALL", B), ("CALL", C)] + [("STEP", 0)] * (lens[A] + 1 - k)
                    three.append(tuple(ops))
    hist = list(dict.fromkeys(hist + three))
    merge_cap = 5 if tier == "quick" else 7
    merges = []
    for a, b in [(x, y) for x in MERGE_POOL for y in MERGE_POOL] + SHIFT_PAIRS + [(y, x) for x, y in SHIFT_PAIRS]:
        if True:
            la, lb = lens[a] + 1, lens[b] + 1  # +1: the step that raises StopIteration
            if la > merge_cap or lb > merge_cap:
                continue
            for pos in itertools.combinations(range(la + lb), la):
                merges.append(("merge", a, b, pos, la + lb))
    seeds = HASH_SEEDS + [(seed * 2654435761 + 12345) % 4294967296]
    sched_cases = []
    pairs = SCHED_PAIRS_QUICK if tier == "quick" else SCHED_PAIRS_THOROUGH
    for (a, b, ka, kb) in pairs:
        na, nb = REF["counts"]["call:%d:%d:%s:%s" % (a, b, ka, kb)]
        sched_cases.append(("sched", "call", a, b, ka, kb, 0, -1))
        sched_cases.append(("sched", "call", a, b, ka, kb, 1, -1))
        sched_cases += [("sched", "call", a, b, ka, kb, 0, k) for k in range(na)]
        sched_cases += [("sched", "call", a, b, ka, kb, 1, k) for k in range(nb)]
    if tier == "thorough":
        for (a, b, ka, kb) in LINE_PAIRS_THOROUGH:
            na, nb = REF["counts"]["line:%d:%d:%s:%s" % (a, b, ka, kb)]
            sched_cases += [("sched", "line", a, b, ka, kb, 0, k) for k in range(na)]
            sched_cases += [("sched", "line", a, b, ka, kb, 1, k) for k in range(nb)]

    def gen():
        for s in seeds:
            yield ("seed", s)
        for h in hist:
            yield ("hist", h)
        for m in merges:
            yield m
        for c in sched_cases:
            yield c
        if tier == "thorough":
            for r in range(32):
                yield ("stress", r)

    space = {
        "pool": len(POOL),
        "hash_seeds": seeds,
        "history_depth": depth,
        "histories": len(hist),
        "three_party_histories": len(three),
        "stream_lengths": lens,
        "merges": len(merges),
        "schedule_pairs": [list(p) for p in pairs],
        "schedules_preemption_bound_1": len(sched_cases),
        "preemption_bound_completed": 1,
        "scheduling_points": REF["counts"],
    }
    # line-granularity preemption directed at shared-state WRITE points (found by profiling each thread alone): these cases take
    # 5-20 s each, so each one leads its own chunk at the very beginning of the run
    cases = list(gen())
    for i, (a, b, ka, kb) in enumerate(WSCAN_PAIRS if tier == "thorough" else WSCAN_PAIRS[:4]):
        cases.insert(i * 24, ("wscan", a, b, ka, kb))
    # every case runs in a forked child of a worker that has imported the library but never parsed anything: what one case leaves behind
    # (a filled memo, a warmed cache) can neither mask nor cause what the next one observes
    return {"space": space, "cases": cases, "chunk": 24, "hash_distinct": True, "isolate": True}


def _fp():
    from .. import fingerprint as F

    return F.module_state(extra=[("scorer_dummy", _scorer("dummy")), ("scorer_nb", _scorer("nb"))])


PROTECTED = ("ctparse.rule.rules", "ctparse.rule._regex", "ctparse.rule._regex_str", "ctparse.rule._str_regex", "ctparse.rule._regex_cnt", "ctparse.ctparse._DEFAULT_SCORER", "ctparse.partial_parse.global_rules", "ctparse.ctparse.global_regex", "extra.")


def _check_fp(v, where, fp0):
    """Only what the property names is a violation: the rule base, the scorer model (default and caller-passed).
    Any other module-level change (a cache, a counter) merely becomes part of the explored state."""
    from .. import fingerprint as F

    now = _fp()
    if now != fp0:
        d = [k for k in F.diff(fp0, now) if k.startswith(PROTECTED)]
        if d:
            v.append(viol({"kind": "rule_base_or_model_modified", "where": d[0]}, "{} modified {}".format(where, d[:6])))
        return False
    return True


def run_case(case):
    kind = case[0]
    v = []
    if kind == "seed":
        other = fresh_reference(case[1])
        if case[1] == 0 and REF.get("order_dependent"):
            i = REF["order_dependent"][0]
            v.append(viol({"kind": "history_changes_result", "op": "fresh process, pool evaluated in sequence"}, "pool entry {} ({!r}) evaluated alone in a fresh interpreter differs from its value after the preceding pool entries in one interpreter".format(i, POOL[i]["text"])))
        for part in ("one", "gen", "corpus"):
            if other[part] != REF[part]:
                k = next(i for i in range(len(REF[part])) if other[part][i] != REF[part][i])
                v.append(viol({"kind": "hash_seed_dependence", "part": part}, "PYTHONHASHSEED={}: {}[{}] differs from seed 0: {} vs {}".format(case[1], part, k, other[part][k], REF[part][k])))
        return {"o": "seed", "nt": True, "v": v, "st": {"reference_interpreters": 1}}
    fp0 = _fp()
    keys = []
    if kind == "hist":
        from .. import fingerprint as F

        ops = case[1]
        streams = []
        yielded = []
        for n, op in enumerate(ops):
            what = "history {} (op {})".format(list(ops), n)
            if op[0] in ("CALL", "FAIL"):
                r = call_one(op[1])
                if r != REF["one"][op[1]]:
                    v.append(viol({"kind": "history_changes_result", "op": op[0]}, "{}: ctparse{} -> {} but fresh-process reference is {}".format(what, (POOL[op[1]]["text"], POOL[op[1]]["kw"]), r, REF["one"][op[1]])))
            elif op[0] == "OPEN":
                streams.append({"p": op[1], "g": open_gen(op[1]), "pos": 0, "closed": False})
            elif op[0] == "STEP":
                s = streams[op[1]]
                ref = REF["gen"][s["p"]]
                try:
                    c = next(s["g"])
                    o = _oc(c)
                    yielded.append((c, o))
                    if s["pos"] >= len(ref) or o != ref[s["pos"]]:
                        v.append(viol({"kind": "history_changes_stream"}, "{}: step {} of stream {} yielded {} but reference is {}".format(what, s["pos"], POOL[s["p"]]["text"], o, ref[s["pos"]] if s["pos"] < len(ref) else "end of stream")))
                    s["pos"] += 1
                except StopIteration:
                    if s["pos"] != len(ref) and not s["closed"]:
                        v.append(viol({"kind": "history_changes_stream"}, "{}: stream {} ended after {} candidates, reference has {}".format(what, POOL[s["p"]]["text"], s["pos"], len(ref))))
                    s["closed"] = True
            elif op[0] == "ABANDON":
                streams[op[1]]["g"].close()
                streams[op[1]]["closed"] = True
            # thorough: fingerprint after every operation; quick: after the last one (a modification of rule base / model persists)
            ok = _check_fp(v, what, fp0) if (FP_EVERY_OP or n == len(ops) - 1) else True
            keys.append(hash((F.digest(_fp()) if not ok else "fp0", tuple(sorted((s["p"], s["pos"], s["closed"]) for s in streams)))))
            if v:
                break
        for c, o in yielded:
            if _oc(c) != o:
                v.append(viol({"kind": "candidate_changed_after_yield"}, "history {}: a yielded candidate changed from {} to {}".format(list(ops), o, _oc(c))))
                break
        return {"o": "hist", "nt": len(ops) > 1, "v": v[:3], "keys": keys, "st": {"transitions": len(ops), "histories": 1}}
    if kind == "merge":
        _, a, b, pos, total = case
        pos = set(pos)
        gens = [open_gen(a), open_gen(b)]
        idx = [a, b]
        got = [[], []]
        objs = []
        for step in range(total):
            w = 0 if step in pos else 1
            try:
                c = next(gens[w])
                o = _oc(c)
                got[w].append(o)
                objs.append((c, o))
            except StopIteration:
                got[w].append("END")
        for w in (0, 1):
            ref = REF["gen"][idx[w]] + ["END"]
            if got[w] != ref[: len(got[w])] or len(got[w]) != len(ref):
                k = next((i for i in range(min(len(got[w]), len(ref))) if got[w][i] != ref[i]), min(len(got[w]), len(ref)))
                v.append(viol({"kind": "interleaving_changes_stream"}, "streams ({!r}, {!r}) merged as {}: stream {} step {} gave {} but reference is {}".format(POOL[a]["text"], POOL[b]["text"], sorted(pos), w, k, got[w][k] if k < len(got[w]) else None, ref[k] if k < len(ref) else None)))
        for c, o in objs:
            if _oc(c) != o:
                v.append(viol({"kind": "candidate_changed_after_yield"}, "merge {} of ({!r},{!r}): a yielded candidate changed from {} to {}".format(sorted(pos), POOL[a]["text"], POOL[b]["text"], o, _oc(c))))
                break
        _check_fp(v, "merge", fp0)
        return {"o": "merge", "nt": 0 < len(pos) and min(pos) != 0 or True, "v": v[:3], "st": {"merges": 1, "transitions": total}}
    if kind == "sched":
        from .. import sched

        _, gran, a, b, ka, kb, first, k = case
        pre = {} if k < 0 else {(first, k): 1 - first}
        try:
            try:
                res, counts, taken = sched.run([body(a, ka), body(b, kb)], runner.REPO + "/ctparse/", gran, first=first, preempts=pre)
            except sched.Deadlock:
                # the horizon is wall-clock time: on a heavily loaded machine a healthy schedule can exceed it - only a schedule that
                # also fails to finish within a five times longer horizon is reported
                res, counts, taken = sched.run([body(a, ka), body(b, kb)], runner.REPO + "/ctparse/", gran, first=first, preempts=pre, horizon_s=300.0)
        except sched.Deadlock as e:
            v.append(viol({"kind": "deadlock"}, "schedule {}: {}".format(case, e)))
            return {"o": "deadlock", "nt": True, "v": v}
        for w, (i, kk) in enumerate(((a, ka), (b, kb))):
            ref = REF["one" if kk == "one" else "gen"][i]
            if res[w][0] != "ok" or res[w][1] != ref:
                v.append(
                    viol(
                        {"kind": "schedule_changes_result", "granularity": gran},
                        "threads ({!r},{!r}) {} first, preempted at its {} point {}: thread {} returned {} but reference is {}".format(POOL[a]["text"], POOL[b]["text"], first, gran, k, w, res[w], ref),
                    )
                )
        _check_fp(v, "schedule", fp0)
        return {"o": "sched:" + ("preempted" if taken else "sequential"), "nt": bool(taken) or k < 0, "v": v[:3], "st": {"schedules": 1, "transitions": sum(counts), "preemptions_taken": len(taken)}}
    if kind == "wscan":
        from .. import sched
        from .. import fingerprint as F

        _, a, b, ka, kb = case
        prefix = runner.REPO + "/ctparse/"
        bodies = [body(a, ka), body(b, kb)]
        writes = []
        for who in (0, 1):
            last = [F.shallow_digest()]
            pts = []

            lastfull = [F.shallow_digest(), 0]
            last[0] = F.shallow_digest(fast=True)

            def cb(me, k, last=last, pts=pts, lastfull=lastfull):
                d = F.shallow_digest(fast=True)
                if d != last[0]:
                    last[0] = d
                    pts.append(k)
                elif k - lastfull[1] >= 64:
                    # the full digest (identity of every bound object) every 64 points
                    lastfull[1] = k
                    df = F.shallow_digest()
                    if df != lastfull[0]:
                        lastfull[0] = df
                        pts.append(k)

            try:
                sched.run([bodies[who]], prefix, "line", on_point=cb, horizon_s=240.0)
            except sched.Deadlock:
                return {"o": "wscan:cap", "skip": "profiling run exceeded the horizon", "nt": False, "st": {"wscan_capped": 1}}
            writes.append(pts)
        n_sched = 0
        capped = False
        for who in (0, 1):
            pts = writes[who]
            if len(pts) > 150:
                pts = pts[:150]
                capped = True
            for k in pts:
                try:
                    try:
                        res, counts, taken = sched.run(bodies, prefix, "line", first=who, preempts={(who, k): 1 - who})
                    except sched.Deadlock:
                        res, counts, taken = sched.run(bodies, prefix, "line", first=who, preempts={(who, k): 1 - who}, horizon_s=300.0)
                except sched.Deadlock as e:
                    v.append(viol({"kind": "deadlock", "granularity": "line@write-point"}, "threads ({!r},{!r}), thread {} preempted at line point {}: {}".format(POOL[a]["text"], POOL[b]["text"], who, k, e)))
                    break
                n_sched += 1
                for w, (i, kk) in enumerate(((a, ka), (b, kb))):
                    ref = REF["one" if kk == "one" else "gen"][i]
                    if res[w][0] != "ok" or res[w][1] != ref:
                        v.append(
                            viol(
                                {"kind": "schedule_changes_result", "granularity": "line@write-point"},
                                "threads ({!r},{!r}): thread {} preempted right after its shared-state write at line point {}: thread {} returned {} but reference is {}".format(POOL[a]["text"], POOL[b]["text"], who, k, w, str(res[w])[:200], str(ref)[:200]),
                            )
                        )
                if v:
                    break
            if v:
                break
        _check_fp(v, "write-point schedules", fp0)
        return {"o": "wscan:writes=%d" % min(1, len(writes[0]) + len(writes[1])), "nt": True, "v": v[:2], "st": {"schedules": n_sched, "write_points_found": len(writes[0]) + len(writes[1]), "wscan_capped": int(capped), "transitions": n_sched}}
    if kind == "stress":
        import threading

        old = sys.getswitchinterval()
        sys.setswitchinterval(1e-6)
        out = {}
        try:
            def work(t):
                i = [0, 2, 3, 4, 5, 8, 9, 1][t % 8]
                out[t] = (i, call_gen(i), call_one(i))

            th = [threading.Thread(target=work, args=(t,)) for t in range(8)]
            for t in th:
                t.start()
            for t in th:
                t.join()
        finally:
            sys.setswitchinterval(old)
        for t, (i, g, o) in out.items():
            if g != REF["gen"][i] or o != REF["one"][i]:
                v.append(viol({"kind": "free_running_threads_change_result"}, "8 free-running threads: thread {} parsing {!r} got a result different from the reference".format(t, POOL[i]["text"])))
        _check_fp(v, "stress", fp0)
        return {"o": "stress", "nt": True, "v": v[:2], "st": {"stress_rounds": 1}}
    raise ValueError(kind)


def finalize(agg, tier, seed):
    agg.extra.update(
        {
            "states": max(1, len(agg.keys)),
            "transitions": max(1, agg.st.get("transitions", 0)),
            "traces_validated_against_impl": agg.st.get("histories", 0) + agg.st.get("merges", 0) + agg.st.get("schedules", 0),
            "histories": agg.st.get("histories", 0),
            "merges": agg.st.get("merges", 0),
            "schedules": agg.st.get("schedules", 0),
            "preemption_bound_completed": 1,
        }
    )


def replay_case(case, rec):
    global REF
    REF = fresh_reference(0, counts=False)
    REF["one"], REF["gen"] = isolated_reference()
    return run_case(tuple(tuple(x) if isinstance(x, list) and case[0] == "hist" and False else x for x in case))
