"""C03 — relative-day expressions hit the exact calendar day for every reference time.

Specification model: refcal (date ordinals).  Language: every surface form the
rule patterns offer for today / now / tomorrow / day after tomorrow / yesterday /
day before yesterday / end of month / end of year / this|bare|next <weekday> /
<weekday> next week.  Every sentence is replayed against ctparse() at every
reference date of the cycle."""
import itertools
from datetime import date, datetime, time, timedelta

from .. import refcal, vocab
from ..common import lib, parse, res_obs, viol, ts_of
from ..obs import T, fmt

PID = "C03"
LEVEL = "exploration"
RULE = (
    "Bounded-exhaustive enumeration of the specification grammar's relative-day language "
    "(surface forms expanded from the rule patterns of the working tree) x reference dates x times of day; "
    "each sentence replayed through ctparse(text, ts, timeout=0) and compared with the refcal denotation. "
    "A case is non-trivial when the expected date differs from the reference date or crosses a month/year boundary "
    "is possible (every case except 'today'/'now' forms); distinct = distinct (text, ts) pairs."
)
ASSUMPTIONS = [
    "refcal (datetime.date ordinals + Gregorian rules written in the harness) is the calendar specification",
    "conventions fixed by the property text: this/bare weekday = first such day strictly after today; next X / X next week = first X on or after today+7; EOM/EOY = last day of reference month/year",
    "reference dates outside the enumerated cycle and time zones are not explored",
]

RELDAY = [
    # kind, rule name
    ("today", "ruleToday"),
    ("now", "ruleNow"),
    ("tomorrow", "ruleTomorrow"),
    ("aftertomorrow", "ruleAfterTomorrow"),
    ("yesterday", "ruleYesterday"),
    ("beforeyesterday", "ruleBeforeYesterday"),
    ("eom", "ruleEOM"),
    ("eoy", "ruleEOY"),
]
# Surface forms the property statement itself names ("today / tomorrow / the day after tomorrow / ... (English and German forms)"):
# they belong to the tested language whether or not a rule pattern of the tree under test offers them.
SPEC_FORMS = {
    "today": ("today", "heute"),
    "now": ("now", "jetzt"),
    "tomorrow": ("tomorrow", "morgen"),
    "aftertomorrow": ("day after tomorrow", "the day after tomorrow", "übermorgen"),
    "yesterday": ("yesterday", "gestern"),
    "beforeyesterday": ("day before yesterday", "the day before yesterday", "vorgestern"),
    "eom": ("end of month", "end of the month", "end of this month", "ende des monats", "ende dieses monats", "monatsende"),
    "eoy": ("end of year", "end of the year", "end of this year", "ende des jahres", "ende dieses jahres", "jahresende"),
}


def _spec_dows(wd):
    return (vocab.EN_DOW[wd], vocab.EN_DOW[wd] + "s", vocab.DE_DOW[wd], vocab.DE_DOW[wd] + "s")


TODS_QUICK = [time(12, 43)]
TODS_THOROUGH = [time(0, 0), time(12, 43), time(23, 59, 59, 999999)]


def expected(kind, ts, wd):
    d = ts.date()
    if kind == "today":
        e = d
    elif kind == "now":
        return T(ts.year, ts.month, ts.day, ts.hour, ts.minute)
    elif kind == "tomorrow":
        e = refcal.add_days(d, 1)
    elif kind == "aftertomorrow":
        e = refcal.add_days(d, 2)
    elif kind == "yesterday":
        e = refcal.add_days(d, -1)
    elif kind == "beforeyesterday":
        e = refcal.add_days(d, -2)
    elif kind == "eom":
        e = refcal.last_of_month(d)
    elif kind == "eoy":
        e = refcal.last_of_year(d)
    elif kind in ("bare_dow", "this_dow"):
        e = refcal.next_weekday_strict(d, wd)
    elif kind in ("next_dow", "dow_nextweek"):
        e = refcal.next_weekday_from(refcal.add_days(d, 7), wd)
    else:
        raise ValueError(kind)
    return T(e.year, e.month, e.day)


def _forms(tier):
    """-> (all_forms, canonical_forms); a form is (kind, text, wd, formkey)"""
    allf = []
    canonf = []
    for kind, rn in RELDAY:
        alts = tuple(dict.fromkeys(tuple(vocab.lang(rn)) + SPEC_FORMS[kind]))
        for a in alts:
            allf.append((kind, a, None, a))
        # canonical: first English-looking and first German-looking alternative are both in `alts`;
        # take first and last alternative (pattern order is DE...EN for these rules)
        for a in dict.fromkeys((alts[0], alts[-1]) + SPEC_FORMS[kind][:2] + SPEC_FORMS[kind][-1:]):
            canonf.append((kind, a, None, a))
    at = vocab.lang("ruleAtDOW")
    nxt = vocab.lang("ruleNextDOW")
    nw = vocab.lang("ruleDOWNextWeek")
    c_at = vocab.canon(at, ("this",))
    c_nxt = vocab.canon(nxt, ("next",))
    c_nw = vocab.canon(nw, ("next week",))
    for wd, alts in vocab.dows():
        alts = tuple(dict.fromkeys(tuple(alts) + _spec_dows(wd)))
        c_en = vocab.canon(alts, (vocab.EN_DOW[wd],))
        c_de = vocab.canon(alts, (vocab.DE_DOW[wd],))
        cans = list(dict.fromkeys((c_en, c_de)))
        for a in alts:
            # every weekday spelling under the canonical joiners
            allf.append(("bare_dow", a, wd, "<dow:%s>" % a))
            allf.append(("this_dow", c_at + " " + a, wd, "%s <dow:%s>" % (c_at, a)))
            allf.append(("next_dow", c_nxt + " " + a, wd, "%s <dow:%s>" % (c_nxt, a)))
            allf.append(("dow_nextweek", a + " " + c_nw, wd, "<dow:%s> %s" % (a, c_nw)))
        for c in cans:
            # every joiner under the canonical weekday spellings
            for j in at:
                allf.append(("this_dow", j + " " + c, wd, "%s <dow:%s>" % (j, c)))
            for j in nxt:
                allf.append(("next_dow", j + " " + c, wd, "%s <dow:%s>" % (j, c)))
            for j in nw:
                allf.append(("dow_nextweek", c + " " + j, wd, "<dow:%s> %s" % (c, j)))
        if tier == "thorough":
            for a in alts:
                for j in at:
                    allf.append(("this_dow", j + " " + a, wd, "%s <dow:%s>" % (j, a)))
                for j in nxt:
                    allf.append(("next_dow", j + " " + a, wd, "%s <dow:%s>" % (j, a)))
                for j in nw:
                    allf.append(("dow_nextweek", a + " " + j, wd, "<dow:%s> %s" % (a, j)))
        canonf.append(("bare_dow", c_en, wd, "<dow:%s>" % c_en))
        canonf.append(("bare_dow", c_de, wd, "<dow:%s>" % c_de))
        canonf.append(("this_dow", c_at + " " + c_en, wd, "%s <dow:%s>" % (c_at, c_en)))
        canonf.append(("next_dow", c_nxt + " " + c_en, wd, "%s <dow:%s>" % (c_nxt, c_en)))
        canonf.append(("dow_nextweek", c_en + " " + c_nw, wd, "<dow:%s> %s" % (c_en, c_nw)))
    dedup = lambda l: list({(f[0], f[1]): f for f in l}.values())
    return dedup(allf), dedup(canonf)


def plan(tier, seed):
    allf, canonf = _forms(tier)
    if tier == "quick":
        days = refcal.cycle(2016, 2019)
        tods = TODS_QUICK
    else:
        days = refcal.cycle(2016, 2043)
        tods = TODS_THOROUGH
    edge = [t.isoformat() for t in refcal.EDGE_TS]

    def gen():
        # product A: every surface form x EDGE_TS
        for f in allf:
            for ts in edge:
                yield ("A",) + f + (ts,)
        # product B: canonical forms x every reference date of the cycle x times of day
        for d in days:
            for tod in tods:
                ts = datetime.combine(d, tod).isoformat()
                for f in canonf:
                    yield ("B",) + f + (ts,)
        # product Z: timezone-aware reference times around local midnight (the wall clock of that zone is the reference)
        from .C04 import AWARE_TS

        for f in canonf:
            for ts in AWARE_TS:
                yield ("Z",) + f + (ts,)
        # product K: every surface form capitalised and in upper case (sentence-initial 'Übermorgen', 'NÄCHSTEN MONTAG') at one reference time
        for f in allf:
            for how in (str.capitalize, str.upper):
                t2 = how(f[1])
                if t2 != f[1] and len(t2) == len(f[1]):
                    yield ("A", f[0], t2, f[2], f[3] + " [" + how.__name__ + "]", edge[3])
        # product C: omitted reference time (the datetime class seen by the library is substituted by a clock in a UTC+9 zone) for one form per kind x EDGE_TS
        seen = set()
        for f in canonf:
            if f[0] in seen:
                continue
            seen.add(f[0])
            for ts in edge:
                yield ("C",) + f + (ts,)

    space = {
        "surface_forms_all": len(allf),
        "surface_forms_canonical": len(canonf),
        "edge_reference_times": len(edge),
        "cycle_reference_dates": len(days),
        "times_of_day": len(tods),
        "product_A": len(allf) * len(edge),
        "product_B": len(canonf) * len(days) * len(tods),
        "product_C_omitted_ts": len({f[0] for f in canonf}) * len(edge),
    }
    return {"space": space, "cases": gen(), "chunk": 256, "hash_distinct": tier == "quick"}


def run_case(case):
    prod, kind, text, wd, formkey, ts_s = case
    ts = ts_of(ts_s)
    exp = expected(kind, ts, wd)
    if prod == "C":
        m = lib()[2]
        real = m.datetime

        from datetime import timezone

        class FakeDT(real):
            """the clock of a machine whose local time is `ts` in a zone 9 hours ahead of UTC"""

            @classmethod
            def now(cls, tz=None):
                if tz is None:
                    return ts
                return (ts - timedelta(hours=9)).replace(tzinfo=timezone.utc).astimezone(tz)

            @classmethod
            def utcnow(cls):
                return ts - timedelta(hours=9)

            @classmethod
            def today(cls):
                return ts

        m.datetime = FakeDT
        try:
            r = m.ctparse(text, timeout=0)
        finally:
            m.datetime = real
    else:
        r = parse(text, ts)
    got = res_obs(r)
    out = {"o": kind + (":ok" if got == exp else ":bad"), "nt": kind not in ("today", "now") or prod == "C"}
    if got != exp:
        out["v"] = [
            viol(
                {"kind": kind, "form": formkey, "omitted_ts": prod == "C"},
                "{!r} at ts={} -> {} expected {}".format(text, ts_s, fmt(got), fmt(exp)),
                expected=exp,
                observed=got,
            )
        ]
    return out
