"""C15 — the search yields exactly what the rules license (sound, complete, pure).

Model checking: for every enumerated text the full derivation graph is explored
(qv.derivation, explicit-state BFS on the registered rule wrappers with deep-copied
arguments).  Conformance: every candidate the implementation streams is replayed
on the graph as an NFA over its reported production sequence (soundness); at
max_stack_depth=0 every terminal state's values must be streamed (completeness);
every transition is checked for argument purity; every candidate is re-observed
after the stream is exhausted."""
from random import Random

from .. import alphabet, refcal, runner
from ..common import lib, viol, ts_of
from ..derivation import Graph, Cap
from ..obs import obs, fmt

PID = "C15"
ON_LIBRARY_RAISE = "skip"  # the statement is about values that are produced; a raising parse is C01's finding
LEVEL = "model_checking"
RULE = (
    "One evaluation = one (text, reference time): the derivation graph is built exhaustively (states = partial productions keyed by value+span of every element, "
    "transitions = successful applications of registered rules on all windows) and must be a finite DAG with pure transitions; then the implementation is run with "
    "scorers {constant, shipped, random x seeds} at max_stack_depth=0 (soundness + completeness) and with depth limits {1,3,10} (soundness only); each streamed "
    "candidate's production sequence is replayed on the graph.  Texts: bundled corpus sentences, 1-token texts, 2-token texts (quick: a pattern-covering subset). "
    "Non-trivial = graph with >=1 transition; distinct = distinct (text, ts).  Texts whose graph exceeds the state cap are skipped and counted."
)
ASSUMPTIONS = [
    "state identity = (value, span) of every element, finer than the implementation's value-only dedup (safe: never merges states with different futures)",
    "latent_time=False (the property's purity/derivability clauses are stated before latent anchoring)",
    "texts with more than %d graph states or 20000 match sequences are outside the explored bound" % 20000,
]

STATE_CAP = 20000


def _texts(tier):
    corp = list(alphabet.corpus_sentences())
    k1 = alphabet.texts_k1(3)
    if tier == "quick":
        toks = alphabet.tokens(1, hazards="core")
        k2 = [a + " " + b for a in toks for b in toks]
    else:
        k2 = alphabet.texts_k2(2, glued="hazards")
    # a #label between two tokens (removing it leaves a double blank between the neighbours)
    core = [t for t in alphabet.HAZARD_CORE if t and not t.startswith("#")][: (12 if tier == "quick" else 40)] + ["5pm", "tomorrow", "monday", "9:30"]
    core = list(dict.fromkeys(core))
    k2 += [a + " #lbl " + b for a in core for b in core]
    # the same token twice in one text (a value object shared between the two occurrences would be edited twice)
    rep = ["friday", "monday", "tomorrow", "5pm", "may", "evening", "eight", "12.5."]
    k2 += [t + " " + t for t in rep] + ["{} 3pm to {} 5pm".format(t, t) for t in rep[:3]] + ["{} 8 {} 9".format(t, t) for t in rep[:3]]
    # date-time to date-time with hour-only clocks (minute missing on one or both sides)
    ho = ["tomorrow 5 o'clock", "tomorrow 5:30", "13.2.2020 17 uhr", "13.2.2020 17:45", "13.2.2020 17h", "heute 8 uhr"]
    k2 += [a + " - " + b for a in ho for b in ho]
    # chains of three numbers whose middle number belongs to two overlapping matches of the same pattern (5/6 and 6/7)
    for sep in "/-:.":
        for tri in ((5, 6, 7), (1, 2, 3), (10, 11, 12), (9, 10, 11), (12, 15, 30), (8, 5, 18)):
            k2.append(sep.join(str(x) for x in tri))
            k2.append("tomorrow " + sep.join(str(x) for x in tri))
    return corp, k1, list(dict.fromkeys(k2))


def plan(tier, seed):
    corp, k1, k2 = _texts(tier)
    default_ts = "2018-03-07T12:43:00"
    extra_ts = [refcal.EDGE_TS[6].isoformat(), refcal.EDGE_TS[4].isoformat()]

    def gen():
        for t, ts in corp:
            yield (t, ts + ":00", tier, seed)
        for t in k1:
            for ts in [default_ts] + extra_ts:
                yield (t, ts, tier, seed)
        for t in k2:
            yield (t, default_ts, tier, seed)
            if tier == "thorough":
                yield (t, extra_ts[0], tier, seed)

    space = {"corpus_sentences": len(corp), "texts_1_token": len(k1), "texts_2_tokens": len(k2), "reference_times_1_token": 3, "scorers_depth0": 3 if tier == "quick" else 5, "depth_limits": [1, 3, 10]}
    return {"space": space, "cases": gen(), "chunk": 8, "hash_distinct": True}


def _scorers(tier, seed):
    from ctparse.scorer import DummyScorer, RandomScorer

    m = lib()[2]
    out = [("constant", lambda: DummyScorer()), ("shipped", lambda: m._DEFAULT_SCORER), ("random%d" % seed, lambda: RandomScorer(Random(seed)))]
    if tier == "thorough":
        out += [("random%d" % (seed + 1), lambda: RandomScorer(Random(seed + 1))), ("random%d" % (seed + 2), lambda: RandomScorer(Random(seed + 2)))]
    return out


_raised = [False]


def _run_impl(text, ts, depth, scorer):
    """-> (yielded observations, the same candidates observed again after the stream ended).  If the library raises in mid-stream (C01's
    business) the candidates yielded up to then are still judged; _raised[0] tells the caller that the stream is incomplete."""
    gen = lib()[1]
    out = []
    objs = []
    _raised[0] = False
    try:
        for c in gen(text, ts=ts, timeout=0, max_stack_depth=depth, scorer=scorer, latent_time=False):
            if c is None:
                continue
            r = c.resolution
            out.append((obs(r), r.mstart, r.mend, tuple(c.production), c.score))
            objs.append(c)
    except Exception as e:  # noqa
        import traceback

        if not any(f.filename.startswith(runner.REPO + "/ctparse/") for f in traceback.extract_tb(e.__traceback__)):
            raise
        _raised[0] = True
    after = [(obs(c.resolution), c.resolution.mstart, c.resolution.mend, tuple(c.production), c.score) for c in objs]
    return out, after


def run_case(case):
    text, ts_s, tier, seed = case
    ts = ts_of(ts_s)
    v = []
    try:
        g = Graph(text, ts, state_cap=STATE_CAP)
    except Cap as e:
        return {"o": "cap", "skip": "derivation graph outside bound ({})".format(e), "nt": False}
    st = {"states": len(g.states), "transitions": g.transitions, "max_depth": max(g.depth.values()) if g.depth else 0, "max_states_one_text": len(g.states)}
    for rn in g.rule_fired:
        st["fired:" + rn] = 1
    if not g.is_dag():
        v.append(viol({"kind": "derivation_cycle"}, "derivation graph of {!r} has a cycle".format(text)))
    seen_imp = set()
    for name, before, after, res in g.impure:
        if name in seen_imp:
            continue
        seen_imp.add(name)
        handed_back = res is not None and any(res[0] == b[0] for b in after)
        v.append(
            viol(
                {"kind": "rule_alters_argument", "rule": name, "what": "span" if [b[0] for b in before] == [a[0] for a in after] else "value"},
                "{!r} @{}: applying {} changed its arguments from {} to {}".format(text, ts_s, name, [(fmt(b[0]) if b[0][0] != "R" else b[0], b[1], b[2]) for b in before], [(fmt(a[0]) if a[0][0] != "R" else a[0], a[1], a[2]) for a in after]),
            )
        )
    # latent-time anchoring is post-processing of finished candidates: the anchored stream is the un-anchored stream with every candidate
    # anchored on its own (on a copy) - it must not reach back into the running search
    import copy

    from ctparse.time.postprocess_latent import apply_postprocessing_rules

    gen = lib()[1]
    for sname, mk in _scorers(tier, seed)[:2]:
        off = []
        try:
            for c in gen(text, ts=ts, timeout=0, max_stack_depth=0, scorer=mk(), latent_time=False):
                if c is not None:
                    r2 = apply_postprocessing_rules(ts, copy.deepcopy(c.resolution))
                    off.append((obs(r2), r2.mstart, r2.mend, tuple(c.production)))
            on = [(obs(c.resolution), c.resolution.mstart, c.resolution.mend, tuple(c.production)) for c in gen(text, ts=ts, timeout=0, max_stack_depth=0, scorer=mk(), latent_time=True) if c is not None]
        except Exception:
            continue  # the library raised in mid-stream: C01's statement, nothing to compare here
        if on != off:
            k = next((i for i in range(min(len(on), len(off))) if on[i] != off[i]), min(len(on), len(off)))
            v.append(viol({"kind": "anchoring_changes_search", "scorer": sname.rstrip("0123456789")}, "{!r} @{} scorer={}: with latent_time=True candidate {} is {} but the un-anchored stream anchored candidate by candidate gives {} ({} vs {} candidates)".format(text, ts_s, sname, k, on[k] if k < len(on) else None, off[k] if k < len(off) else None, len(on), len(off))))
            break
    term = g.terminal_values()
    traces = 0
    for sname, mk in _scorers(tier, seed):
        yielded, after = _run_impl(text, ts, 0, mk())
        if _raised[0]:
            st["streams_ended_by_an_exception"] = st.get("streams_ended_by_an_exception", 0) + 1
        if yielded != after:
            k = next(i for i in range(len(yielded)) if yielded[i] != after[i])
            v.append(viol({"kind": "candidate_changed_after_yield", "scorer": sname.rstrip("0123456789")}, "{!r} @{} scorer={}: candidate {} {} became {} [{}-{}] after the stream was exhausted".format(text, ts_s, sname, k, (fmt(yielded[k][0]), yielded[k][1], yielded[k][2]), fmt(after[k][0]), after[k][1], after[k][2])))
        for (o, ms, me, prod, score) in yielded:
            traces += 1
            reached = g.replay(prod)
            ok = any(e == (o, ms, me) for k in reached for e in k)
            if not ok:
                val_ok = any(e[0] == o for k in reached for e in k)
                derivable = o in g.all_values()
                v.append(
                    viol(
                        {"kind": "underivable_value" if not derivable else ("production_not_a_derivation" if not val_ok else "span_differs_from_derivation"), "scorer": sname.rstrip("0123456789"), "depth": 0},
                        "{!r} @{} scorer={} depth=0: candidate {} [{}-{}] with production {} is {}".format(
                            text, ts_s, sname, fmt(o), ms, me, prod, "not derivable at all" if not derivable else ("not the result of that production sequence" if not val_ok else "derived with a different span")
                        ),
                    )
                )
                break
        got_vals = {y[0] for y in yielded}
        missing = [o for o in term if o not in got_vals]
        if missing and not _raised[0]:  # a stream that ended in an exception is not judged for completeness
            v.append(
                viol(
                    {"kind": "terminal_value_not_streamed", "scorer": sname.rstrip("0123456789")},
                    "{!r} @{} scorer={} depth=0: fully reduced derivation result {} is never streamed ({} of {} terminal values missing)".format(text, ts_s, sname, fmt(missing[0]), len(missing), len(term)),
                )
            )
    for depth in (1, 3, 10):
        for sname, mk in _scorers(tier, seed)[1:3]:
            yielded, after = _run_impl(text, ts, depth, mk())
            for (o, ms, me, prod, score) in yielded:
                traces += 1
                reached = g.replay(prod)
                if not any(e[0] == o for k in reached for e in k):
                    v.append(viol({"kind": "underivable_with_depth_limit", "depth": depth}, "{!r} @{} scorer={} depth={}: candidate {} with production {} is not derivable".format(text, ts_s, sname, depth, fmt(o), prod)))
                    break
    st["traces_validated_against_impl"] = traces
    st["terminal_values"] = len(term)
    return {"o": "graph" if g.transitions else "empty", "nt": g.transitions > 0, "v": v[:8], "st": st}


def finalize(agg, tier, seed):
    fired = {k[6:] for k in agg.st if k.startswith("fired:")}
    for k in [k for k in agg.st if k.startswith("fired:")]:
        del agg.st[k]
    from ctparse import rule as RU

    agg.extra.update(
        {
            "states": max(1, agg.st.get("states", 0)),
            "transitions": max(1, agg.st.get("transitions", 0)),
            "traces_validated_against_impl": agg.st.get("traces_validated_against_impl", 0),
            "max_depth": agg.st.get("max_depth", 0),
            "rules_fired_in_graphs": len(fired & set(RU.rules)),
            "rules_total": len(RU.rules),
            "rules_not_fired_in_graphs": sorted(set(RU.rules) - fired),
        }
    )
