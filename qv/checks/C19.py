"""C19 — the rule base is structurally sound and the shipped model speaks its language.

(a) syntax tree of ctparse/time/rules.py vs the registry; (b) all patterns x all
probe strings: no empty / zero-length match; (c) adjacency + id bijection;
(d) explicit-state BFS of part-of-day modifier chains on the REAL ruleEarlyLatePOD
(states = POD keys, transitions = every modifier spelling), each state validated
against the implementation by parsing the chain text end to end; (e) shipped
vocabulary; (f) every rule fires in some explored derivation."""
import ast
import itertools
import os

from .. import runner, vocab
from ..common import lib, parse, stream, viol

PID = "C19"
ON_LIBRARY_RAISE = "skip"  # the statement is about values that are produced; a raising parse is C01's finding
LEVEL = "model_checking"
RULE = (
    "States = part-of-day keys reachable from every base part of day by applying the registered early/late rule with a real match of every modifier "
    "spelling (BFS to a fixpoint, depth cap 5); transitions = rule applications; every reached state must be a key of pod_hours and its chain text is "
    "replayed through ctparse/ctparse_gen (trace validated against the implementation).  Plus complete static enumerations: AST definitions vs registry, "
    "all patterns x all probe strings of length <=3 over {1 . blank a p m x} and all corpus sentences, predicate adjacency, id<->text bijection, all unigram tokens "
    "of the shipped vocabulary, and rule liveness over the corpus derivations."
)
ASSUMPTIONS = [
    "probe strings bounded to length 3 over class representatives",
    "liveness witnesses are the bundled corpus sentences at max_stack_depth=0 with the constant scorer",
    "an id shift that stays inside the id range is invisible to the vocabulary check",
]

PROBE_ALPHA = ["1", ".", " ", "a", "p", "m", "x"]
DEPTH_CAP = 5


def _corpus():
    from ctparse.time.corpus import corpus

    out = []
    for target, ts, tests in corpus:
        for t in tests:
            out.append((t, ts))
    return list(dict.fromkeys(out))


def plan(tier, seed):
    from ctparse import rule as RU

    ids = sorted(RU._regex)
    corp = _corpus()

    def gen():
        yield ("ast",)
        yield ("registry",)
        yield ("vocabulary",)
        for rid in ids:
            yield ("probe", rid)
        yield ("podchain",)
        # conformance replay of every reached state's chain text (depth <= 3 when the BFS has no fixpoint)
        for st_, (d, text) in sorted(_podchain()["seen"].items(), key=lambda kv: (kv[1][0], kv[0])):
            if d <= 3:
                yield ("podreplay", st_, d, text)
        for text, ts in corp:
            yield ("fire", text, ts)
        # the rule base is the same after calls in which a production raised (reference times at the edge of the datetime range, a date instead of a datetime)
        yield ("after_fault",)

    nprobe = sum(len(PROBE_ALPHA) ** k for k in (1, 2, 3))
    space = {"patterns": len(ids), "probe_strings": nprobe, "corpus_sentences": len(corp), "rules": len(RU.rules), "pattern_x_probe": len(ids) * (nprobe + len(corp))}
    return {"space": space, "cases": gen(), "chunk": 4}


def _rules_ast():
    path = os.path.join(runner.REPO, "ctparse", "time", "rules.py")
    with open(path, encoding="utf-8") as fd:
        tree = ast.parse(fd.read())
    defs = []
    for node in tree.body:
        if isinstance(node, ast.FunctionDef):
            for d in node.decorator_list:
                if isinstance(d, ast.Call) and getattr(d.func, "id", None) == "rule":
                    # co_firstlineno of a decorated function is the line of its first decorator
                    defs.append((node.name, min(x.lineno for x in node.decorator_list), node.lineno))
    return defs, path


def _inner(wrapper):
    for c in wrapper.__closure__ or ():
        f = c.cell_contents
        if callable(f) and hasattr(f, "__code__"):
            return f
    return None


def run_case(case):
    from ctparse import rule as RU
    from ctparse.types import RegexMatch, Time, pod_hours

    kind = case[0]
    v = []
    st = {}
    if kind == "ast":
        defs, path = _rules_ast()
        names = [d[0] for d in defs]
        for n in sorted(set(names)):
            if names.count(n) > 1:
                v.append(viol({"kind": "duplicate_rule_name", "rule": n}, "rule {} is defined {} times in rules.py (later definition silently replaces the earlier)".format(n, names.count(n))))
        for n, deco_line, def_line in defs:
            if n not in RU.rules:
                v.append(viol({"kind": "unregistered", "rule": n}, "rule {} defined at line {} is not in the registry".format(n, def_line)))
                continue
            f = _inner(RU.rules[n][0])
            if f is None or f.__code__.co_firstlineno not in (deco_line, def_line) or not f.__code__.co_filename.endswith("rules.py"):
                if names.count(n) == 1:
                    v.append(viol({"kind": "registry_points_elsewhere", "rule": n}, "registry entry {} does not wrap the definition at line {}".format(n, def_line)))
        # module namespace vs registry (covers rules created by assignment, e.g. X = rule(...)(f)): every rule wrapper bound in the
        # rule module must be the registry entry of its own name, and every registry key must be bound in the module
        from ctparse.time import rules as R

        reg_by_id = {id(w): n for n, (w, _) in RU.rules.items()}
        for attr, obj in vars(R).items():
            if callable(obj) and getattr(obj, "__qualname__", "").endswith("fwrapper.<locals>.wrapper"):
                if id(obj) not in reg_by_id:
                    v.append(viol({"kind": "rule_defined_but_not_registered", "rule": attr}, "rule object {} of the rule module is not in the registry (another definition took its name: it can never fire)".format(attr)))
                elif reg_by_id[id(obj)] != attr and attr not in RU.rules:
                    v.append(viol({"kind": "rule_registered_under_other_name", "rule": attr}, "rule {} is registered under the name {!r}".format(attr, reg_by_id[id(obj)])))
        for n in RU.rules:
            if not hasattr(R, n) and n not in names:
                v.append(viol({"kind": "registry_name_is_no_rule", "rule": n}, "registry entry {!r} names no rule of the rule module".format(n)))
        extra = [n for n in RU.rules if n not in names]
        st["rules_defined"] = len(defs)
        st["rules_registered_elsewhere"] = len(extra)
        return {"o": "ast", "nt": True, "v": v, "st": st}
    if kind == "after_fault":
        from datetime import date as _date, datetime as _dt

        cp = lib()[0]
        before = {n: (id(w), len(preds)) for n, (w, preds) in RU.rules.items()}
        ids_before = (sorted(RU._regex), dict(RU._regex_str))
        raised = 0
        for text, ts in [("tomorrow", _dt(9999, 12, 31, 12, 0)), ("übermorgen", _dt(9999, 12, 31, 12, 0)), ("eom", _dt(9999, 12, 31, 12, 0)), ("eoy", _dt(9999, 12, 31, 12, 0)), ("next monday", _dt(9999, 12, 30, 12, 0)),
                         ("monday", _dt(9999, 12, 31, 12, 0)), ("yesterday", _dt(1, 1, 1, 0, 0)), ("now", _date(2020, 1, 1)), ("evening", _date(2020, 1, 1)), ("8 pm", _dt(9999, 12, 31, 21, 0))]:
            try:
                cp(text, ts=ts, timeout=0)
            except Exception:
                raised += 1
        after = {n: (id(w), len(preds)) for n, (w, preds) in RU.rules.items()}
        if after != before:
            lost = sorted(set(before) - set(after))
            changed = sorted(n for n in before if n in after and before[n] != after[n])
            v.append(viol({"kind": "rule_base_changed_by_failed_call"}, "after {} calls that raised inside a production the registry differs: lost {}, added {}, replaced {}".format(raised, lost, sorted(set(after) - set(before)), changed)))
        if (sorted(RU._regex), dict(RU._regex_str)) != ids_before:
            v.append(viol({"kind": "pattern_tables_changed_by_failed_call"}, "pattern tables differ after calls that raised"))
        # and ordinary calls still resolve
        from datetime import datetime as _d2

        for text, exp in (("tomorrow", (2018, 3, 8)), ("yesterday", (2018, 3, 6)), ("eom", (2018, 3, 31))):
            r = cp(text, ts=_d2(2018, 3, 7, 12, 43), timeout=0)
            got = None if r is None or r.resolution is None else (getattr(r.resolution, "year", None), getattr(r.resolution, "month", None), getattr(r.resolution, "day", None))
            if got != exp:
                v.append(viol({"kind": "rule_dead_after_failed_call", "text": text}, "after calls that raised, {!r} at 2018-03-07 resolves to {} (expected {})".format(text, got, exp)))
        return {"o": "after_fault", "nt": raised > 0, "v": v, "st": {"calls_that_raised": raised}}
    if kind == "registry":
        for n, (w, preds) in RU.rules.items():
            for p0, p1 in zip(preds[:-1], preds[1:]):
                if p0.__name__ == "_regex_match" and p1.__name__ == "_regex_match":
                    v.append(viol({"kind": "adjacent_patterns", "rule": n}, "rule {} has two adjacent patterns".format(n)))
            if not preds:
                v.append(viol({"kind": "empty_rule", "rule": n}, "rule {} has no pattern".format(n)))
        if sorted(RU._regex_str) != sorted(RU._regex):
            v.append(viol({"kind": "id_tables_differ"}, "_regex and _regex_str have different id sets"))
        inv = {}
        for rid, s in RU._regex_str.items():
            if s in inv:
                v.append(viol({"kind": "pattern_text_two_ids"}, "pattern text {!r} has ids {} and {}".format(s, inv[s], rid)))
            inv[s] = rid
        if inv != dict(RU._str_regex):
            v.append(viol({"kind": "str_regex_not_inverse"}, "_str_regex is not the inverse of _regex_str"))
        used = set()
        for n, (w, preds) in RU.rules.items():
            for p in preds:
                if p.__name__ == "_regex_match":
                    used.add(p.__closure__[0].cell_contents)
        for rid in used - set(RU._regex):
            v.append(viol({"kind": "dangling_pattern_id"}, "a rule refers to pattern id {} which is not compiled".format(rid)))
        st["pattern_ids_used"] = len(used)
        return {"o": "registry", "nt": True, "v": v, "st": st}
    if kind == "vocabulary":
        m = lib()[2]
        model = getattr(m._DEFAULT_SCORER, "_model", None)
        if model is None:
            return {"o": "vocabulary:none", "skip": "no shipped model", "nt": False}
        voc = model.transformer.vocabulary
        uni = [t for t in voc if " " not in t]
        for t in uni:
            ok = t in RU.rules or (t.isdigit() and int(t) in RU._regex)
            if not ok:
                v.append(viol({"kind": "vocabulary_token_unknown", "token": t}, "shipped vocabulary token {!r} names neither a pattern id nor a rule".format(t)))
        st["unigrams"] = len(uni)
        st["vocabulary"] = len(voc)
        return {"o": "vocabulary", "nt": True, "v": v[:10], "st": st}
    if kind == "probe":
        rid = case[1]
        rr = RU._regex[rid]
        key = "R{}".format(rid)
        if rr.match(""):
            v.append(viol({"kind": "matches_empty", "pattern": rid}, "pattern {} ({!r}) matches the empty string".format(rid, RU._regex_str[rid])))
        n = 0
        probes = ["".join(p) for k in (1, 2, 3) for p in itertools.product(PROBE_ALPHA, repeat=k)] + [t for t, _ in _corpus()]
        nm = 0
        for s in probes:
            n += 1
            for mm in rr.finditer(s, overlapped=True):
                nm += 1
                a, b = mm.span(key)
                if b - a <= 0:
                    v.append(viol({"kind": "zero_length_match", "pattern": rid}, "pattern {} ({!r}) yields a zero-length match on {!r}".format(rid, RU._regex_str[rid], s)))
                    break
            if v:
                break
        return {"o": "probe", "nt": nm > 0, "v": v[:2], "st": {"probes": n, "probe_matches": nm}}
    if kind == "podchain":
        r = _podchain()
        r.pop("seen")
        return r
    if kind == "fire":
        from ctparse.scorer import DummyScorer
        from datetime import datetime

        _, text, ts = case
        _install_counters()
        _fired.clear()
        for c in lib()[1](text, ts=datetime.strptime(ts, "%Y-%m-%dT%H:%M"), timeout=0, max_stack_depth=0, scorer=DummyScorer(), latent_time=False):
            pass
        fired = {"fired:" + n: 1 for n in _fired}
        return {"o": "fire", "nt": bool(fired), "st": fired}
    if kind == "podreplay":
        return _podreplay(case)
    raise ValueError(kind)


_fired = set()
_installed = False


def _install_counters():
    """replace every registry entry by a wrapper that records a successful application (registry-level observation, no source change)"""
    global _installed
    if _installed:
        return
    from ctparse import rule as RU

    def mk(name, w):
        def counting(ts, *args):
            r = w(ts, *args)
            if r is not None:
                _fired.add(name)
            return r

        return counting

    for name, (w, preds) in list(RU.rules.items()):
        RU.rules[name] = (mk(name, w), preds)
    _installed = True


def _podreplay(case):
    from ctparse.types import pod_hours
    from datetime import datetime

    _, s, d, text = case
    ts = datetime(2018, 3, 7, 12, 43)
    v = []
    try:
        cands = stream(text, ts, max_stack_depth=0)
        parse(text, ts)
        for c in cands:
            pod = getattr(c.resolution, "POD", None)
            if pod is not None and pod not in pod_hours:
                v.append(viol({"kind": "streamed_pod_outside_table", "depth": d}, "{!r} streams part of day {!r} unknown to pod_hours".format(text, pod)))
    except Exception as e:
        v.append(viol({"kind": "chain_text_raises", "depth": d, "exc": type(e).__name__}, "parsing modifier chain {!r} raised {!r}".format(text, e)))
    return {"o": "podreplay", "nt": d > 0, "v": v[:2], "st": {"pod_traces_validated": 1}}


def _podchain():
    from ctparse import rule as RU
    from ctparse.types import RegexMatch, Time, pod_hours

    v = []
    w, preds = RU.rules["ruleEarlyLatePOD"]
    rid = preds[0].__closure__[0].cell_contents
    rr = RU._regex[rid]
    mods = list(vocab.lang("ruleEarlyLatePOD"))
    mod_matches = []
    for mtxt in mods:
        for mm in rr.finditer(mtxt):
            if mm.span("R%d" % rid) == (0, len(mtxt)):
                mod_matches.append((mtxt, RegexMatch(rid, mm)))
                break
    latent = RU.rules["ruleLatentPOD"][0]
    from datetime import datetime

    ts = datetime(2018, 3, 7, 12, 43)
    init = [name for name, alts in vocab.pods()]
    # state -> (depth, chain text)
    first_alt = {name: alts[0] for name, alts in vocab.pods()}
    seen = {s: (0, first_alt[s]) for s in init}
    frontier = list(init)
    transitions = 0
    fixpoint = True
    maxd = 0
    bad_states = []
    while frontier:
        nxt = []
        for s in frontier:
            d, text = seen[s]
            for mtxt, rm in mod_matches:
                p = Time(POD=s)
                p.mstart, p.mend = rm.mend + 1, rm.mend + 2
                r = w(ts, rm, p)
                transitions += 1
                if r is None:
                    continue
                s2 = r.POD
                if s2 not in seen:
                    seen[s2] = (d + 1, mtxt + " " + text)
                    maxd = max(maxd, d + 1)
                    ok = s2 in pod_hours
                    if not ok:
                        bad_states.append(s2)
                        v.append(
                            viol(
                                {"kind": "pod_outside_table", "depth": d + 1},
                                "modifier chain {!r} builds part of day {!r} which pod_hours does not know".format(mtxt + " " + text, s2),
                            )
                        )
                    if d + 1 < DEPTH_CAP:
                        nxt.append(s2)
                    else:
                        fixpoint = False
        frontier = nxt
    # invariant on every state: accessors and latent rule total
    for s, (d, text) in seen.items():
        if s not in pod_hours:
            continue
        t = Time(POD=s)
        try:
            t.start, t.end
            latent(ts, t)
        except Exception as e:
            v.append(viol({"kind": "pod_state_accessor_raises", "state": s}, "part of day {!r}: {!r}".format(s, e)))
    return {
        "o": "podchain",
        "nt": True,
        "v": v[:12],
        "st": {"pod_states": len(seen), "pod_transitions": transitions, "pod_max_depth": maxd, "pod_fixpoint": int(fixpoint), "modifier_spellings": len(mod_matches)},
        "seen": seen,
    }


def finalize(agg, tier, seed):
    from ctparse import rule as RU

    fired = {k[6:] for k in agg.st if k.startswith("fired:")}
    dead = sorted(set(RU.rules) - fired)
    for n in dead:
        agg.add_violation({"kind": "rule_never_fires", "rule": n}, "rule {} fires in no derivation of any bundled corpus sentence".format(n), case=("liveness", n))
    agg.extra.update(
        {
            "states": max(1, agg.st.get("pod_states", 0)),
            "transitions": max(1, agg.st.get("pod_transitions", 0)),
            "traces_validated_against_impl": agg.st.get("pod_traces_validated", 0),
            "max_depth": agg.st.get("pod_max_depth", 0),
            "fixpoint_reached": bool(agg.st.get("pod_fixpoint", 0)),
            "rules_live": len(fired & set(RU.rules)),
            "rules_total": len(RU.rules),
        }
    )
    for k in [k for k in agg.st if k.startswith("fired:")]:
        del agg.st[k]
    if not agg.st.get("pod_fixpoint", 0):
        agg.caps_hit.append("POD-chain BFS stopped at depth cap {} without a fixpoint".format(DEPTH_CAP))
