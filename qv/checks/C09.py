"""C09 — words around a time expression neither change its meaning nor blur its span.

Relational: expression alone vs expression embedded among 0-3 inert words before
and after.  Inertness is decided by the library's own patterns (no pattern match
touches the word's characters, alone or in the assembled text)."""
import re

from .. import alphabet, grammar
from ..common import lib, parse, viol, ts_of
from ..obs import obs, fmt

PID = "C09"
LEVEL = "exploration"
RULE = (
    "Expressions = every sentence of ctparse/time/corpus.py + the canonical grammar sentences; each is parsed alone and embedded as '<p inert words> <expr> <s inert words>' for all "
    "(p, s) in {0..3}^2, latent on and off.  Oracle: same resolution value; span = span of the stand-alone result shifted by the prefix length; the spanned text has no leading/trailing blank "
    "and start < end.  Inert pool: candidate words on which no registered pattern matches any character (alone and in context); a case whose filler is touched by a match in the assembled text is "
    "skipped and counted.  VERIF_SEED rotates which pool members are used.  Non-trivial = p+s > 0 and the stand-alone expression resolves; distinct = distinct (expr, p, s, latent)."
)
ASSUMPTIONS = ["the stand-alone parse of the expression is the reference (its meaning is judged by C03-C08/C20)", "fillers are blank-separated lower-case words"]

CANDIDATES = ["beers", "burgers", "call", "lunch", "with", "john", "milk", "buy", "meeting", "xyz", "projekt", "kaffee", "review", "dentist", "zzz", "pizza", "report", "gym", "yoga", "book", "flight", "pick", "up",
              "kids", "grill", "bbq", "sync", "quux", "foo", "bar", "baz", "wobble", "grok", "plugh", "rugby", "jog", "cook", "rice", "vill", "kukk", "pixel", "lobby", "yolk", "ruby", "wow", "klo", "zoo"]

# words that BEGIN like the tail of a pattern (ordinal suffix, am/pm, uhr/h): inert by the same test, placed directly behind the expression
HAZARD_SUFFIX_WORDS = ["stars", "stew", "thx", "rdx", "ndx", "pmx", "amx", "terrace", "tennis", "hat", "uhrwerk", "hx", "amber", "pmo", "thanks", "street"]

# words that END like an optional leading word of a pattern ((a |one )quarter, (very )late, (not )before, (right |just )now, (genau )jetzt), placed directly in front
HAZARD_PREFIX_WORDS = ["every", "knot", "pizza", "bright", "adjust", "ungenau", "phone", "extra", "cannot",
                       # words whose compatibility-normalised form has another length (decomposed umlaut, ligature, ellipsis): offsets behind them must not shift
                       "Bu\u0308ro", "\ufb01x", "lunch\u2026", "\u2460zz"]

_pool = None


def inert_pool():
    global _pool
    if _pool is None:
        from ctparse import rule as RU

        m = lib()[2]
        out = []
        for w in CANDIDATES:
            if not m._match_regex(w, RU._regex) and not m._match_regex("x " + w + " y", RU._regex):
                out.append(w)
        _pool = out
    return _pool


def plan(tier, seed):
    pool = inert_pool()
    if len(pool) < 6:
        raise RuntimeError("inert pool too small: {}".format(pool))
    rot = seed % len(pool)
    pool = pool[rot:] + pool[:rot]
    exprs = [(t, ts + ":00") for t, ts in alphabet.corpus_sentences()] + [(s, "2018-03-07T12:43:00") for _, s in grammar.sentences()]
    # every weekday spelling alone and in front of a clock (a spelling that is only recognised in some contexts shows up here)
    from .. import vocab

    for _, alts in vocab.dows():
        for a in alts:
            exprs.append((a, "2018-03-07T12:43:00"))
            exprs.append((a.capitalize() + " 8 Uhr", "2018-03-07T12:43:00"))
    # clock notations added to the library after the grammar was written
    exprs += [(t, "2018-03-07T12:43:00") for t in ("8 Uhr 30", "18 Uhr 45", "um 8 Uhr 05", "0 uhr nachts", "day after tomorrow", "monatsende")]
    # expressions with very many equally long tokenisations (several numbers, each of which is a day, a month, an hour and a year)
    exprs += [(t, "2018-03-07T12:43:00") for t in ("on Friday 23/2/2018", "august 5 at 8am", "Jun 21 at about 8am", "24/12 10am - 11am", "1/2/2018 at 3-4", "am 8.5. um 9-10", "09-10-16 8am")]
    if tier == "thorough":
        exprs += [(s, "2020-02-29T23:59:30") for _, s in grammar.sentences()] + [(t, "2019-12-31T23:59:30") for t, ts in alphabet.corpus_sentences()]
    exprs = list(dict.fromkeys(exprs))
    m = lib()[2]
    from ctparse import rule as RU

    hazard_pre = [w for w in HAZARD_PREFIX_WORDS if not m._match_regex(w, RU._regex) and not m._match_regex("x " + w + " y", RU._regex)]
    hazard = [w for w in HAZARD_SUFFIX_WORDS if not m._match_regex(w, RU._regex) and not m._match_regex("x " + w + " y", RU._regex)]

    def gen():
        for expr, ts in exprs:
            for latent in (True, False):
                for p in range(4):
                    for s in range(4):
                        if p == 0 and s == 0:
                            continue
                        yield (expr, ts, latent, tuple(pool[:p]), tuple(pool[3 : 3 + s]))
                for hw in hazard:
                    yield (expr, ts, latent, (), (hw,))
                    yield (expr, ts, latent, (pool[0],), (hw, pool[3]))
                for hw in hazard_pre:
                    yield (expr, ts, latent, (hw,), ())

    space = {"expressions": len(exprs), "prefix_suffix_combinations": 15, "latent": 2, "inert_pool": pool, "hazard_suffix_words": hazard, "hazard_prefix_words": hazard_pre, "candidates": len(CANDIDATES)}
    return {"space": space, "cases": gen(), "chunk": 64, "hash_distinct": True}


_base = {}


def _alone(expr, ts, latent):
    k = (expr, ts, latent)
    if k not in _base:
        r = parse(expr, ts, latent_time=latent)
        _base[k] = (obs(r.resolution), None if r.resolution is None else (r.resolution.mstart, r.resolution.mend))
        if len(_base) > 4000:
            _base.clear()
    return _base[k]


def run_case(case):
    from ctparse import rule as RU

    expr, ts, latent, pre, suf = case
    m = lib()[2]
    base_o, base_span = _alone(expr, ts, latent)
    if base_o is None:
        return {"o": "base-empty", "skip": "stand-alone expression has no resolution", "nt": False}
    # the RAW expression is embedded (not its normalised form): normalisation must act on it in context exactly as alone
    expr_n = m._preprocess_string(expr)
    text = " ".join(list(pre) + [expr] + list(suf))
    norm = m._preprocess_string(text)
    # inert in context?
    off = len(" ".join(pre)) + 1 if pre else 0
    ranges = []
    pos = 0
    for w in pre:
        ranges.append((pos, pos + len(w)))
        pos += len(w) + 1
    pos = len(norm)
    for w in reversed(suf):
        ranges.append((pos - len(w), pos))
        pos -= len(w) + 1
    # A filler word that a pattern match covers COMPLETELY in the assembled text is not inert there ('days' behind a number, 'st' behind a day):
    # nothing to judge.  A match that merely bites into a filler word (ends or starts strictly inside it: 'every' + 'late evening' read as
    # 'very late evening', '8 st'+'ars') does not make the word a time word - the case is judged.
    for rm in m._match_regex(norm, RU._regex):
        for a, b in ranges:
            if rm.mstart <= a and rm.mend >= b:
                return {"o": "not-inert", "skip": "a pattern match covers a whole filler word in the assembled text", "nt": False}
    r = parse(text, ts, latent_time=latent)
    got_o = obs(r.resolution)
    v = []
    sig = {"latent": latent, "prefix": len(pre) > 0, "suffix": len(suf) > 0}
    if got_o != base_o:
        v.append(viol(dict(sig, kind="meaning_changed"), "{!r} -> {} but embedded {!r} -> {}".format(expr, fmt(base_o), text, fmt(got_o)), base_o, got_o))
    else:
        sp = (r.resolution.mstart, r.resolution.mend)
        want = (base_span[0] + off, base_span[1] + off)
        seg = norm[sp[0] : sp[1]]
        if not (sp[0] < sp[1]) or seg != seg.strip():
            v.append(viol(dict(sig, kind="span_blurred"), "embedded {!r}: span {} delimits {!r} (blank at the edge or empty)".format(text, sp, seg), want, sp))
        elif sp != want:
            v.append(viol(dict(sig, kind="span_shifted"), "{!r} alone has span {} but embedded in {!r} the span is {} (expected {}), i.e. {!r}".format(expr, base_span, text, sp, want, seg), want, sp))
    return {"o": "ok" if not v else v[0]["sig"]["kind"], "nt": True, "v": v}
