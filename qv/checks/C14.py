"""C14 — the returned parse is a best-scoring candidate of the stream, scores are finite.

For every enumerated (text, ts, option vector) the single-result call is compared
with the list of the streaming call under identical arguments."""
import itertools
import math
from random import Random

from .. import alphabet, refcal
from ..common import lib, viol, ts_of
from ..obs import obs, fmt

PID = "C14"
ON_LIBRARY_RAISE = "skip"  # the statement is about values that are produced; a raising parse is C01's finding
LEVEL = "exploration"
RULE = (
    "Texts = bundled corpus sentences + all 1-token texts x the full option product (scorer {shipped, constant, random(seed) [preceded by a call with a differently seeded random scorer], coverage = log covered share} x latent {on,off} x max_stack_depth {10,0,1} "
    "x relative_match_len {1.0,0.5}; depth 0 only for 1-token texts in quick) + all 2-token texts x 2 option vectors; timeout=0.  Oracle: ctparse(args) equals (value, span, "
    "production, score, subject, labels) some maximal-score element of list(ctparse_gen(args)); empty resolution iff empty stream; all scores finite floats; with latent off a "
    "repeated value is streamed only with a strictly higher score.  One evaluation = one (text, ts, options) pair of runs; non-trivial = non-empty stream; distinct = distinct argument tuples."
)
ASSUMPTIONS = ["the random scorer is seeded identically for both entry points", "texts bounded as in C01"]

SCORERS = ("shipped", "dummy", "random", "coverage")


def _mk(kind, seed):
    import math as _m

    from ctparse.scorer import DummyScorer, RandomScorer, Scorer

    class Coverage(Scorer):
        """log of the covered share: exactly 0.0 for a full-coverage candidate, negative otherwise (a legal user scorer)"""

        def score(self, txt, ts, pp):
            return _m.log((pp.prod[-1].mend - pp.prod[0].mstart) / len(txt))

        def score_final(self, txt, ts, pp, prod):
            return _m.log(len(prod) / len(txt))

    m = lib()[2]
    return {"shipped": lambda: m._DEFAULT_SCORER, "dummy": DummyScorer, "random": lambda: RandomScorer(Random(seed)), "coverage": Coverage}[kind]()


def plan(tier, seed):
    edge = [t.isoformat() for t in refcal.EDGE_TS]
    corp = list(alphabet.corpus_sentences())
    k1 = alphabet.texts_k1(3)
    depths_full = (10, 0, 1)
    if tier == "quick":
        k2 = alphabet.texts_k2(2, glued="hazards")
        k2_vecs = [("shipped", True, 10, 1.0), ("random", False, 10, 0.5)]
        k1_ts = [edge[3]]
    else:
        k2 = alphabet.texts_k2(3, glued="all")
        k2_vecs = [("shipped", True, 10, 1.0), ("random", False, 10, 0.5), ("dummy", False, 0, 1.0), ("shipped", False, 1, 0.5)]
        k1_ts = [edge[3], edge[6], edge[4]]

    from .. import grammar

    edge_texts = []
    for _, g in grammar.sentences():
        for dsh in ("-", "\u2013"):
            edge_texts.append("{} zzq {}".format(dsh, g))
            edge_texts.append("{} zzq {}".format(g, dsh))

    def gen():
        # a separator at the very edge of the text (the subject is built differently on the two entry points if one strips it)
        for t in edge_texts:
            for sc in ("shipped", "dummy"):
                yield (t, edge[3], sc, True, 10, 1.0, seed)
        for t in k1:
            for ts in k1_ts:
                for sc, lat, d, rml in itertools.product(SCORERS, (True, False), depths_full, (1.0, 0.5)):
                    yield (t, ts, sc, lat, d, rml, seed)
        # every option OMITTED in both calls (each entry point then applies its own defaults: they have to be the same defaults)
        yield ("<signature>", edge[3], "omitted", None, None, None, seed)
        for t, ts in corp:
            yield (t, ts + ":00", "omitted", None, None, None, seed)
        for _, g in grammar.sentences():
            yield (g, edge[3], "omitted", None, None, None, seed)
        for t, ts in corp:
            for sc, lat, d, rml in itertools.product(SCORERS, (True, False), (10, 1) if tier == "quick" else depths_full, (1.0, 0.5)):
                yield (t, ts + ":00", sc, lat, d, rml, seed)
        for t in k2:
            for sc, lat, d, rml in k2_vecs:
                yield (t, edge[3], sc, lat, d, rml, seed)

    space = {
        "texts_1_token": len(k1),
        "corpus_sentences": len(corp),
        "texts_2_tokens": len(k2),
        "option_vectors_full": 48,
        "option_vectors_2_tokens": len(k2_vecs),
        "reference_times_1_token": len(k1_ts),
    }
    return {"space": space, "cases": gen(), "chunk": 64, "hash_distinct": tier == "quick"}


def _o(c):
    r = c.resolution
    return (obs(r), None if r is None else (r.mstart, r.mend), None if c.production is None else tuple(c.production), c.score, c.subject, None if c.labels is None else tuple(c.labels))


def run_case(case):
    text, ts_s, sc, lat, d, rml, seed = case
    cp, gen, m = lib()
    ts = ts_of(ts_s)
    kw = dict(timeout=0, relative_match_len=rml, max_stack_depth=d, latent_time=lat)
    v = []
    if sc == "omitted":
        if text == "<signature>":
            import inspect

            pa, pb = inspect.signature(cp).parameters, inspect.signature(gen).parameters
            diff = {k: (pa[k].default, pb[k].default) for k in pa if k in pb and pa[k].default != pb[k].default}
            if diff:
                v.append(viol({"kind": "defaults_differ", "options": sorted(diff)}, "ctparse and ctparse_gen declare different defaults: {}".format(diff)))
            return {"o": "signature", "nt": True, "v": v}
        kw = dict(timeout=0)
        _mk_ = lambda *_: None
    else:
        _mk_ = _mk
    if sc == "random":
        # the same arguments with a differently seeded scorer of the same class first: the call under test must not see its traces
        cp(text, ts=ts, scorer=_mk(sc, seed + 7919), **kw)
    L = [c for c in gen(text, ts=ts, scorer=_mk_(sc, seed), **kw)]
    r = cp(text, ts=ts, scorer=_mk_(sc, seed), **kw)
    # debug=True hands back the candidate stream itself: it must be THE stream of the same arguments
    D = [c for c in cp(text, ts=ts, scorer=_mk_(sc, seed), debug=True, **kw)]
    if [_o(c) for c in D if c is not None] != [_o(c) for c in L if c is not None]:
        dl, ll = [_o(c) for c in D if c is not None], [_o(c) for c in L if c is not None]
        k = next((i for i in range(min(len(dl), len(ll))) if dl[i] != ll[i]), min(len(dl), len(ll)))
        v.append(viol({"kind": "debug_stream_differs", "scorer": sc}, "{!r} @{} scorer={} latent={} depth={} rml={}: ctparse(debug=True) candidate {} is {} but ctparse_gen yields {}".format(text, ts_s, sc, lat, d, rml, k, dl[k] if k < len(dl) else None, ll[k] if k < len(ll) else None)))
    sig = {"scorer": sc}
    desc = "{!r} @{} scorer={} latent={} depth={} rml={}".format(text, ts_s, sc, lat, d, rml)
    L = [c for c in L if c is not None]
    if r is None:
        v.append(viol(dict(sig, kind="returns_none"), "{}: ctparse returned None".format(desc)))
        return {"o": "none", "nt": bool(L), "v": v}
    if not L:
        if r.resolution is not None:
            v.append(viol(dict(sig, kind="result_without_stream"), "{}: stream is empty but ctparse returned {}".format(desc, r.resolution)))
        return {"o": "empty", "nt": False, "v": v}
    if r.resolution is None:
        v.append(viol(dict(sig, kind="empty_result_with_stream"), "{}: stream has {} candidates but ctparse returned an empty resolution".format(desc, len(L))))
        return {"o": "bad", "nt": True, "v": v}
    obsL = [_o(c) for c in L]
    for o in obsL:
        s = o[3]
        if not (isinstance(s, float) and math.isfinite(s)):
            v.append(viol(dict(sig, kind="score_not_finite"), "{}: candidate {} has score {!r}".format(desc, fmt(o[0]), s)))
            break
    if not v:
        best = max(o[3] for o in obsL)
        ro = _o(r)
        if ro not in obsL:
            same_val = [o for o in obsL if o[0] == ro[0]]
            v.append(viol(dict(sig, kind="result_not_in_stream"), "{}: ctparse returned {} which is not an element of the stream (same value streamed as {})".format(desc, ro, same_val[:1])))
        elif ro[3] != best:
            v.append(viol(dict(sig, kind="result_not_best"), "{}: ctparse returned score {} but the stream contains score {}".format(desc, ro[3], best)))
        if lat is False:
            last = {}
            for o in obsL:
                if o[0] in last and not (o[3] > last[o[0]]):
                    v.append(viol(dict(sig, kind="value_repeated_without_better_score"), "{}: value {} streamed again with score {} after {}".format(desc, fmt(o[0]), o[3], last[o[0]])))
                    break
                last[o[0]] = o[3]
    return {"o": "n=%d" % min(len(L), 3), "nt": True, "v": v[:3], "st": {"candidates": len(L)}}
