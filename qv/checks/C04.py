"""C04 — partial dates resolve to the nearest future occurrence, written fields preserved.

Specification model: search on date ordinals (refcal).  Two complete products:
(A) all surface forms x all values at the EDGE_TS reference times,
(B) one canonical form per value x every reference date of the cycle."""
from datetime import date, datetime, time

from .. import refcal, vocab
from ..common import parse, res_obs, viol, ts_of
from ..obs import T, fmt

PID = "C04"
LEVEL = "exploration"
RULE = (
    "Forms: every weekday spelling; days of month 1-31 as 'N.', 'N<ordinal suffix>', 'the Nth', 'am N.'; all 366 day+month pairs as 'd.m.', 'd. <Monat>', '<Month> d', "
    "'dth of <Month>' (every month spelling for boundary days); every part-of-day spelling; weekday + day of month ('monday 5th', 'montag 5.') for all 7 x 31 pairs.  Product A: all forms x EDGE_TS; product B: canonical forms x every reference date "
    "of the cycle x times of day.  Oracle (refcal search): weekday/day-of-month -> first matching date strictly after the reference date; day+month -> first matching date on or "
    "after it (skipping months/years that lack the day); weekday+day of month -> first date on or after today carrying both; part of day -> today if its start hour is still ahead of the reference minute, else tomorrow.  Equivalently: result >= "
    "today, written fields preserved, no matching date strictly between.  Non-trivial = expected date != reference date + 1 (i.e. the search had to look further) or the form "
    "is a part of day; distinct = distinct (text, ts)."
)
ASSUMPTIONS = [
    "refcal is the calendar specification; conventions fixed by the property (weekday/day of month equal to today rolls on; day+month equal to today stays)",
    "cycle 2016-2019 (quick) / 2016-2043 (thorough); the 8-year leap gap around 2100 is outside the stated quantifier and not demanded",
]

SUFFIX = {1: "st", 2: "nd", 3: "rd", 21: "st", 22: "nd", 23: "rd", 31: "st"}


def _ord(n):
    return "{}{}".format(n, SUFFIX.get(n, "th"))


def expected(kind, val, ts):
    d = ts.date()
    if kind == "dow":
        e = refcal.next_weekday_strict(d, val)
        return T(e.year, e.month, e.day)
    if kind == "dom":
        e = refcal.next_dom_strict(d, val)
        return T(e.year, e.month, e.day)
    if kind == "doy":
        e = refcal.next_doy_from(d, val[0], val[1])
        return T(e.year, e.month, e.day)
    if kind == "dowdom":
        wd, dom = val
        c = d
        for _ in range(366 * 12):
            if c.weekday() == wd and c.day == dom:
                return T(c.year, c.month, c.day)
            c = refcal.add_days(c, 1)
        raise AssertionError
    if kind == "pod":
        from ctparse.types import pod_hours

        h = pod_hours[val][0]
        e = d if (h, 0) > (ts.hour, ts.minute) else refcal.add_days(d, 1)
        return T(e.year, e.month, e.day, POD=val)
    raise ValueError(kind)


AWARE_TS = ["2023-06-15T00:30:00+02:00", "2023-06-14T21:00:00-05:00", "2023-06-14T07:00:00+09:00", "2023-12-31T23:30:00-08:00", "2024-03-01T00:10:00+05:30", "2023-06-14T12:00:00+00:00"]


def _single_reading(text):
    """True iff the library's own patterns offer exactly one full-coverage reading of the text (the part-of-day match itself).
    'morgen' (also tomorrow), 'so früh' (also Sunday + morning), 'vormittag' (also before + noon), 'afternoon' (after + noon) have several;
    for those only the reading-independent clause (never before the reference date) is judged."""
    from ..derivation import normalise, all_matches, maximal_sequences, coverage

    norm = normalise(text)
    seqs = maximal_sequences(norm, all_matches(norm))
    full = [s for s in seqs if coverage(s) == len(norm)]
    return len(full) == 1 and len(full[0]) == 1


def _forms(tier):
    allf, canon = [], []
    for wd, alts in vocab.dows():
        for a in alts:
            allf.append(("dow", wd, a, "<dow:%s>" % a))
        canon.append(("dow", wd, vocab.canon(alts, (vocab.EN_DOW[wd],)), "<dow>"))
        # the weekday behind the joiners that keep its "nearest future" meaning (this / on / am / diesen <weekday>)
        en, de = vocab.EN_DOW[wd], vocab.DE_DOW[wd]
        for j, w in (("this", en), ("on", en), ("am", de), ("diesen", de)):
            allf.append(("dow", wd, j + " " + w, j + " <dow>"))
        canon.append(("dow", wd, "this " + en, "this <dow>"))
        canon.append(("dow", wd, "diesen " + de, "diesen <dow>"))
    for n in range(1, 32):
        fs = [("{}.".format(n), "N."), (_ord(n), "Nth"), ("the " + _ord(n), "the Nth"), ("am {}.".format(n), "am N."), ("on the " + _ord(n), "on the Nth")]
        for txt, key in fs:
            allf.append(("dom", n, txt, key))
        canon.append(("dom", n, _ord(n), "Nth"))
        canon.append(("dom", n, "{}.".format(n), "N."))
    months = dict(vocab.months())
    for m in range(1, 13):
        en = vocab.canon(months[m], (vocab.EN_MONTH[m - 1],))
        de = vocab.canon(months[m], (vocab.DE_MONTH[m - 1],))
        for d in range(1, 32):
            if d > (29 if m == 2 else refcal.month_len(2001, m)):
                continue
            fs = [("{}.{}.".format(d, m), "d.m."), ("{:02d}.{:02d}.".format(d, m), "dd.mm."), ("{}. {}".format(d, de), "d. Monat"), ("{} {}".format(en, d), "Month d"), ("{} of {}".format(_ord(d), en), "dth of Month"), ("{} {}".format(en, _ord(d)), "Month dth")]
            for txt, key in fs:
                allf.append(("doy", (m, d), txt, key))
            boundary = d in (1, 28, 29, 30, 31)
            if boundary:
                for a in months[m]:
                    allf.append(("doy", (m, d), "{}. {}".format(d, a), "d. <month:%s>" % a))
                    allf.append(("doy", (m, d), "{} {}".format(a, _ord(d)), "<month:%s> dth" % a))
            if boundary or tier == "thorough":
                canon.append(("doy", (m, d), "{}.{}.".format(d, m), "d.m."))
            if d in (28, 29, 30, 31):
                canon.append(("doy", (m, d), "{} {}".format(en, d), "Month d"))
    # weekday + day of month ('monday 5th'): first date on or after today with that weekday AND day of month
    for wd in range(7):
        for n in range(1, 32):
            en = vocab.EN_DOW[wd]
            de = vocab.DE_DOW[wd]
            allf.append(("dowdom", (wd, n), "{} {}".format(en, _ord(n)), "<dow> Nth"))
            allf.append(("dowdom", (wd, n), "{} {}.".format(de, n), "<dow> N."))
            if n in (1, 13, 28, 29, 30, 31):
                canon.append(("dowdom", (wd, n), "{} {}".format(en, _ord(n)), "<dow> Nth"))
            # the usual connectors around the pair ('am Donnerstag den 21.', 'on Thursday the 21st')
            if n in (1, 5, 13, 21, 28, 29, 30, 31):
                allf.append(("dowdom", (wd, n), "am {} den {}.".format(de, n), "am <dow> den N."))
                allf.append(("dowdom", (wd, n), "{} den {}.".format(de, n), "<dow> den N."))
                allf.append(("dowdom", (wd, n), "on {} the {}".format(en, _ord(n)), "on <dow> the Nth"))
            if n >= 6:
                # day of month written first ('14. Mittwoch', '14th Wed'); below 6 'Nth <weekday>' also reads as the N-th such weekday of a month
                allf.append(("dowdom", (wd, n), "{} {}".format(_ord(n), en), "Nth <dow>"))
                allf.append(("dowdom", (wd, n), "{}. {}".format(n, de), "N. <dow>"))
    for name, alts in vocab.pods():
        for a in alts:
            allf.append(("pod" if _single_reading(a) else "pod_ambiguous", name, a, "<pod:%s>" % a))
    dd = lambda l: list({(f[0], f[2]): f for f in l}.values())
    return dd(allf), dd(canon)


def plan(tier, seed):
    allf, canon = _forms(tier)
    edge = [t.isoformat() for t in refcal.EDGE_TS]
    if tier == "quick":
        days = refcal.cycle(2016, 2019)
        tods = [time(12, 43)]
    else:
        days = refcal.cycle(2016, 2043)
        tods = [time(0, 0), time(12, 43), time(23, 59, 59, 999999)]
    pod_canon = [f for f in allf if f[0] in ("pod", "pod_ambiguous")]
    pod_ts = []
    for h in range(24):
        for mi, s in ((0, 0), (0, 30), (59, 59)):
            pod_ts.append(datetime(2019, 12, 31, h, mi, s).isoformat())
            pod_ts.append(datetime(2020, 2, 28, h, mi, s).isoformat())

    def gen():
        for f in allf:
            for ts in edge:
                yield ("A",) + f + (ts,)
        for d in days:
            doy_today = [("doy", (d.month, d.day), "{}.{}.".format(d.day, d.month), "d.m.")]
            for tod in tods:
                ts = datetime.combine(d, tod).isoformat()
                for f in canon:
                    if f[0] == "doy" and tier == "thorough" and not (f[1][1] >= 28 or f[1][1] == 1) and d.year > 2019:
                        continue  # all 366 pairs on CYCLE4, boundary pairs on the whole cycle
                    yield ("B",) + f + (ts,)
                for f in doy_today:
                    yield ("B",) + f + (ts,)
        # timezone-aware reference times in the hours around local midnight (the wall clock of the given zone is the reference, not UTC)
        for f in canon:
            if f[0] == "doy" and f[1][1] not in (1, 28, 31):
                continue
            for ts in AWARE_TS:
                yield ("Z",) + f + (ts,)
        for f in pod_canon[:: 3]:
            for ts in AWARE_TS:
                yield ("Z",) + f + (ts,)
        # parts of day against every hour boundary (the rule compares against the clock)
        for f in pod_canon:
            for ts in pod_ts:
                yield ("P",) + f + (ts,)

    space = {
        "forms_all": len(allf),
        "forms_canonical": len(canon),
        "edge_reference_times": len(edge),
        "cycle_reference_dates": len(days),
        "times_of_day": len(tods),
        "pod_forms": len(pod_canon),
        "pod_reference_times": len(pod_ts),
    }
    return {"space": space, "cases": gen(), "chunk": 256, "hash_distinct": tier == "quick"}


def run_case(case):
    prod, kind, val, text, key, ts_s = case
    ts = ts_of(ts_s)
    if kind in ("doy", "dowdom"):
        val = tuple(val)
    if kind == "pod_ambiguous":
        got = res_obs(parse(text, ts))
        v = []
        ends = [got] if got is not None and got[0] == "T" else ([e for e in got[1:] if e is not None] if got is not None and got[0] == "I" else [])
        for g in ends:
            if None not in g[1:4] and date(g[1], g[2], g[3]) < ts.date():
                v.append(viol({"kind": kind, "form": key, "why": "in_the_past"}, "{!r} at ts={} -> {} lies before the reference date".format(text, ts_s, fmt(got)), None, got))
        return {"o": "pod_ambiguous", "nt": False, "skip": "part-of-day spelling with several readings under the library's own patterns: only 'not in the past' judged", "v": v}
    exp = expected(kind, val, ts)
    got = res_obs(parse(text, ts))
    e_date = date(exp[1], exp[2], exp[3])
    nt = kind == "pod" or (e_date - ts.date()).days != 1
    out = {"o": kind + (":ok" if got == exp else ":bad"), "nt": nt}
    if got != exp:
        why = "other"
        if got is not None and got[0] == "T" and None not in got[1:4]:
            try:
                g = date(got[1], got[2], got[3])
                if g < ts.date():
                    why = "in_the_past"
                elif kind == "dom" and g.day != val:
                    why = "day_not_preserved"
                elif kind == "doy" and (g.month, g.day) != val:
                    why = "day_month_not_preserved"
                elif kind == "dow" and g.weekday() != val:
                    why = "weekday_not_preserved"
                elif kind == "dowdom" and (g.weekday(), g.day) != val:
                    why = "weekday_or_day_not_preserved"
                elif g > e_date:
                    why = "not_nearest"
                elif g < e_date:
                    why = "too_early"
            except ValueError:
                why = "impossible_date"
        elif got is None:
            why = "no_resolution"
        else:
            why = "not_a_date"
        sig = {"kind": kind, "form": key, "why": why}
        if key in ("am <dow> den N.", "<dow> den N.", "on <dow> the Nth"):
            # is it the default depth limit that loses the reading?  (the same text without the limit)
            sig["cause"] = "depth_limit_truncation" if res_obs(parse(text, ts, max_stack_depth=0)) == exp else "other"
        out["v"] = [viol(sig, "{!r} at ts={} -> {} expected {}".format(text, ts_s, fmt(got), fmt(exp)), exp, got)]
    return out
