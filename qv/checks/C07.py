"""C07 — ranges are built from their two ends, ordered, and wrap sensibly.

(1) ordered and reversed pairs of dates x joiners; (2) all 24x24 hour pairs x minute
variants x joiners x day contexts (explicit date, relative day, weekday, none);
(3) every before/after/not-before/not-after spelling x {clock, date, weekday}."""
from datetime import date, datetime, timedelta

from .. import refcal, vocab
from ..common import parse, res_obs, viol, ts_of
from ..obs import T, fmt

PID = "C07"
LEVEL = "exploration"
RULE = (
    "Date ranges: all ordered, equal and reversed pairs of a boundary date set x joiners {-, to, bis, until, between..and, von..bis, from..to}.  Clock ranges: hours 0-23 x 0-23 x minute variants "
    "{H:00-H:00, H:30-H:35, 'H-H' digits} x joiners x contexts {8.5.2018, tomorrow, monday, none, 31.12.2018, 28.2.2020, 30.4.2019}.  Oracle: start is A on the context day; if B is after A on that day the end is B that day; "
    "otherwise the end is B moved 12 hours (only when both written hours <= 12) or to the next day; always start < end <= start + 24h.  Reversed date pairs must not yield an inverted interval.  "
    "Date-time to date-time: all ordered pairs of a 30-element datetime set x joiners (forward -> that interval, reversed -> never inverted).  Part of day + range: 6 part-of-day words x hours 1-12 x 1-12 x "
    "contexts (judged where the adjusted end is after the adjusted start).  Date written after the range: 24x24 x {tomorrow, on 8.5.2018}.  Bounds: every spelling of the before/after patterns and the words until/til/no later than x X in {5pm, 17:30, 8.5.2018, monday}: exactly the stated side is set and equals X parsed alone.  "
    "Non-trivial = clock pair needing a wrap, or any date pair/bound case; distinct = distinct (text, ts)."
)
ASSUMPTIONS = [
    "either admissible wrap (12 hours later when both written hours <= 12, or next day) is accepted when the written end is not after the start: the statement names both",
    "bare 'H-H' digit pairs are judged only where the library reads both numbers as hours in the stand-alone parse of the pair (otherwise d-m / day-range readings are legitimate) - skipped and counted",
]

TS = "2018-03-07T12:43:00"
DATES = [date(2018, 5, 8), date(2018, 5, 9), date(2018, 5, 31), date(2018, 6, 1), date(2018, 12, 31), date(2019, 1, 1), date(2019, 2, 28), date(2019, 3, 1), date(2020, 2, 28), date(2020, 2, 29), date(2020, 3, 1), date(2021, 1, 30)]


def dstr(d, style):
    if style == 0:
        return "{}.{}.{}".format(d.day, d.month, d.year)
    return "{:02d}.{:02d}.{}".format(d.day, d.month, d.year)


def date_join(a, b, j):
    return {
        "-": a + "-" + b,
        " - ": a + " - " + b,
        "to": a + " to " + b,
        "bis": a + " bis " + b,
        "until": a + " until " + b,
        "between": "between " + a + " and " + b,
        "zwischen": "zwischen " + a + " und " + b,
        "von": "von " + a + " bis " + b,
        "from": "from " + a + " to " + b,
        # lower-bound word + upper-bound word
        "from_until": "from " + a + " until " + b,
        "ab_bis": "ab " + a + " bis " + b,
        # the joiner word written without blanks ('9to5', '9bis17', '5.8.bis16.8.')
        "to_glued": a + "to" + b,
        "bis_glued": a + "bis" + b,
    }[j]


JOINS = ["-", " - ", "to", "bis", "until", "between", "zwischen", "von", "from"]
CONTEXTS = [("date", "8.5.2018 "), ("tomorrow", "tomorrow "), ("weekday", "monday "), ("on_weekday", "on monday "), ("am_wochentag", "am montag "), ("none", ""), ("yearend", "31.12.2018 "), ("leapday", "28.2.2020 "), ("monthend", "30.4.2019 ")]


def ctx_day(ctx, ts):
    d = ts.date()
    if ctx == "date":
        return date(2018, 5, 8)
    if ctx == "yearend":
        return date(2018, 12, 31)
    if ctx == "leapday":
        return date(2020, 2, 28)
    if ctx == "monthend":
        return date(2019, 4, 30)
    if ctx == "tomorrow":
        return refcal.add_days(d, 1)
    if ctx in ("weekday", "on_weekday", "am_wochentag"):
        return refcal.next_weekday_strict(d, 0)
    return None


def clock_text(h, m, variant):
    if variant == "digits":
        return str(h)
    if variant == "oclock-end" and m is None:
        return "{} o'clock".format(h)
    return "{}:{:02d}".format(h, m)


def plan(tier, seed):
    bounds = []
    for rn, side in (("ruleBeforeTime", "to"), ("ruleAfterTime", "from")):
        pat_name = "not"
        for alt in vocab.lang(rn):
            neg = alt.startswith("not ") or alt.startswith("nicht ")
            s = side
            if neg:
                s = "from" if side == "to" else "to"
            bounds.append((alt, s))
    for w in ("until", "til", "no later than"):
        bounds.append((w, "to"))  # the statement names 'before/until X'
    # every bound word also capitalised and in upper case (the patterns are case-insensitive; so must the side be)
    bounds += [(a.capitalize(), s_) for a, s_ in bounds] + [(a.upper(), s_) for a, s_ in bounds if a.startswith(("not ", "nicht "))]
    bounds = list(dict.fromkeys(bounds))
    xs = ["5pm", "17:30", "8.5.2018", "monday", "tomorrow", "12.5."]
    joins_clock = (JOINS if tier == "thorough" else ["-", " - ", "to", "bis", "between", "von"]) + ["to_glued", "bis_glued"]
    variants = [("00", 0, 0), ("30-35", 30, 35), ("digits", 0, 0), ("oclock-end", 45, None)]

    def gen():
        for a in DATES:
            for b in DATES:
                for j in JOINS + ["to_glued", "bis_glued", "from_until", "ab_bis"]:
                    for style in (0, 1):
                        yield ("dates", date_join(dstr(a, style), dstr(b, style), j), (a.year, a.month, a.day), (b.year, b.month, b.day), j, TS)
        for ha in range(24):
            for hb in range(24):
                for vname, ma, mb in variants:
                    for j in joins_clock:
                        if vname == "digits" and j not in ("-", "to", "bis", "von", "between", "to_glued", "bis_glued"):
                            continue
                        if j.endswith("_glued") and vname == "30-35" and tier == "quick":
                            continue
                        if vname == "oclock-end" and (j not in ("-", " - ", "to", "bis") or hb == 0):
                            continue  # '<h>:45 to <h> o'clock': the end carries no minute of its own
                        ta = clock_text(ha, ma, vname)
                        tb = clock_text(hb, mb, vname)
                        if mb is None:
                            mb = 0
                        for cname, cprefix in CONTEXTS:
                            if cname in ("yearend", "leapday", "monthend") and (vname == "digits" or (tier == "quick" and j not in ("-", "bis"))):
                                continue  # roll-over days: explicit clock notations (quick: two joiners)
                            if tier == "quick" and (vname == "oclock-end" or j.endswith("_glued")) and cname not in ("none", "date", "tomorrow"):
                                continue
                            if cname in ("on_weekday", "am_wochentag") and (j not in ("-", "to", "bis") or vname == "digits"):
                                continue  # connector + weekday in front of the range: three joiners, explicit clock notations (bare numbers behind 'on monday' also read as days of the month)
                            yield ("clock", cprefix + date_join(ta, tb, j), (ha, ma), (hb, mb), (j, vname, cname), TS)
        for alt, side in bounds:
            for x in xs:
                yield ("bound", alt + " " + x, x, side, alt, TS)
        # date-time to date-time ranges: all ordered pairs (forward, equal, reversed) of a datetime set
        dts = [(d, h, m) for d in DATES[:6] for (h, m) in ((8, 0), (9, 0), (9, 30), (18, 30), (19, 0))]
        for a in dts:
            for b in dts:
                for j in ("-", "to", "bis", "until", "from_until", "ab_bis") if tier == "quick" else JOINS + ["from_until", "ab_bis"]:
                    ta = "{} {}:{:02d}".format(dstr(a[0], 0), a[1], a[2])
                    tb = "{} {}:{:02d}".format(dstr(b[0], 0), b[1], b[2])
                    yield ("dtdt", date_join(ta, tb, j) if (j in JOINS or j in ("from_until", "ab_bis")) else ta + " " + j + " " + tb, (a[0].year, a[0].month, a[0].day, a[1], a[2]), (b[0].year, b[0].month, b[0].day, b[1], b[2]), j, TS)
        # part of day + clock range: the part of day moves hours below 12 into the afternoon (the code's convention for 'N in the afternoon')
        for pod, pm in (("nachmittags", True), ("afternoon", True), ("abends", True), ("evening", True), ("morgens", False), ("vormittags", False)):
            for ha in range(1, 13):
                for hb in range(1, 13):
                    for ctx in ("", "tomorrow ", "5.3.2020 "):
                        yield ("podrange", "{}{} {}-{}".format(ctx, pod, ha, hb), (ha, hb), pm, ctx, TS)
                        if tier == "thorough" or ctx == "":
                            yield ("podrange", "{}{} {}:00 bis {}:00".format(ctx, pod, ha, hb), (ha, hb), pm, ctx, TS)
        # the date written AFTER the clock range
        for ha in range(24):
            for hb in range(24):
                for suffix, cname in ((" tomorrow", "tomorrow"), (" on 8.5.2018", "date")):
                    yield ("clock_suffix", "{}:00-{}:00{}".format(ha, hb, suffix), (ha, 0), (hb, 0), cname, TS)

    space = {"dates": len(DATES), "date_pairs": len(DATES) ** 2, "joiners": len(JOINS), "hour_pairs": 576, "minute_variants": len(variants), "clock_joiners": len(joins_clock), "contexts": len(CONTEXTS), "bound_spellings": len(bounds), "bound_operands": len(xs)}
    return {"space": space, "cases": gen(), "chunk": 128, "hash_distinct": True}


def _dt(o):
    """observation of a fully dated Time -> datetime (hour/minute default 0)"""
    return datetime(o[1], o[2], o[3], o[4] or 0, o[5] or 0)


def run_case(case):
    kind = case[0]
    ts = ts_of(case[-1])
    if kind == "dates":
        _, text, a, b, j, _ts = case
        a, b = date(*a), date(*b)
        got = res_obs(parse(text, ts))
        if a < b:
            exp = ("I", T(a.year, a.month, a.day), T(b.year, b.month, b.day))
            if got != exp:
                return {"o": "dates:bad", "nt": True, "v": [viol({"kind": "date_range", "joiner": j}, "{!r} -> {} expected {}".format(text, fmt(got), fmt(exp)), exp, got)]}
            return {"o": "dates:ok", "nt": True}
        # reversed or equal: no inverted interval
        if got is not None and got[0] == "I" and got[1] is not None and got[2] is not None and None not in got[1][1:4] and None not in got[2][1:4]:
            if _dt(got[1]) > _dt(got[2]):
                return {"o": "dates:inverted", "nt": True, "v": [viol({"kind": "date_range_inverted", "joiner": j}, "{!r} -> {} (start after end)".format(text, fmt(got)), None, got)]}
        return {"o": "dates:reversed-ok", "nt": True}
    if kind == "clock":
        _, text, (ha, ma), (hb, mb), (j, vname, cname), _ts = case
        if vname == "digits":
            # judged only if the library itself reads the bare pair as two hours when it stands alone with latent off
            pair = text[len(dict(CONTEXTS)[cname]) :] if cname != "none" else text
            alone = res_obs(parse(pair, ts, latent_time=False))
            if not (alone is not None and alone[0] == "I" and alone[1] is not None and alone[2] is not None and alone[1][1:4] == (None, None, None) and alone[1][4] == ha and alone[2][4] is not None and alone[2][4] % 12 == hb % 12):
                return {"o": "clock:skip", "skip": "bare digit pair not read as two hours by the library when alone", "nt": False}
        got = res_obs(parse(text, ts))
        day = ctx_day(cname, ts)
        if day is None:
            day = ts.date() if (ha, ma) > (ts.hour, ts.minute) else refcal.add_days(ts.date(), 1)
        A = datetime(day.year, day.month, day.day, ha, ma)
        B0 = datetime(day.year, day.month, day.day, hb, mb)
        if B0 > A:
            ends = [B0]
            wrap = False
        else:
            wrap = True
            ends = [B0 + timedelta(days=1)]
            if ha <= 12 and hb <= 12 and B0 + timedelta(hours=12) > A:
                ends.append(B0 + timedelta(hours=12))
        sig = {"kind": "clock_range", "context": cname, "variant": vname, "joiner": j, "wrap": wrap}

        def judge(got):
            if got is not None and got[0] == "I" and got[1] is not None and got[2] is not None and None not in got[1][1:5] and None not in got[2][1:5]:
                s, e = _dt(got[1]), _dt(got[2])
                if s != A:
                    return False, "start_differs"
                if not (s < e):
                    return False, "inverted"
                if e - s > timedelta(hours=24):
                    return False, "longer_than_24h"
                if e not in ends:
                    return False, "end_differs"
                return True, None
            return False, "not_an_interval"

        ok, why = judge(got)
        out = {"o": "clock:" + ("ok" if ok else why), "nt": wrap}
        if not ok:
            sig["why"] = why
            if cname in ("on_weekday", "am_wochentag"):
                # is it the default depth limit that loses the reading?  (the same text without the limit)
                sig["cause"] = "depth_limit_truncation" if judge(res_obs(parse(text, ts, max_stack_depth=0)))[0] else "other"
            out["v"] = [viol(sig, "{!r} at {} -> {} expected start {} end in {}".format(text, case[-1], fmt(got), A.isoformat(), [x.isoformat() for x in ends]), [A.isoformat()] + [x.isoformat() for x in ends], got)]
        return out
    if kind == "dtdt":
        _, text, a, b, j, _ts = case
        A = datetime(*a)
        B = datetime(*b)
        got = res_obs(parse(text, ts))
        if A < B:
            exp = ("I", T(*a), T(*b))
            if got != exp:
                why = "forward_range_rejected" if not (got is not None and got[0] == "I" and got[1] is not None and got[2] is not None) else "ends_differ"
                return {"o": "dtdt:bad", "nt": True, "v": [viol({"kind": "datetime_range", "why": why, "joiner": j}, "{!r} -> {} expected {}".format(text, fmt(got), fmt(exp)), exp, got)]}
            return {"o": "dtdt:ok", "nt": True}
        if got is not None and got[0] == "I" and got[1] is not None and got[2] is not None and None not in got[1][1:4] and None not in got[2][1:4]:
            if _dt(got[1]) > _dt(got[2]):
                return {"o": "dtdt:inverted", "nt": True, "v": [viol({"kind": "datetime_range_inverted", "joiner": j}, "{!r} -> {} (start after end)".format(text, fmt(got)), None, got)]}
        return {"o": "dtdt:reversed-ok", "nt": True}
    if kind == "podrange":
        _, text, (ha, hb), pm, ctx, _ts = case
        adj = (lambda h: h + 12 if h < 12 else h) if pm else (lambda h: h)
        ea, eb = adj(ha), adj(hb)
        if not (ea < eb):
            return {"o": "podrange:skip", "skip": "part-of-day range whose adjusted end is not after its adjusted start (no convention stated)", "nt": False}
        got = res_obs(parse(text, ts, latent_time=False))
        ok = got is not None and got[0] == "I" and got[1] is not None and got[2] is not None and got[1][4] == ea and got[2][4] == eb and (got[1][5] or 0) == 0 and (got[2][5] or 0) == 0
        if ok and ctx:
            ok = None not in got[1][1:4] and got[1][1:4] == got[2][1:4]
        out = {"o": "podrange:" + ("ok" if ok else "bad"), "nt": True}
        if not ok:
            out["v"] = [viol({"kind": "pod_range", "pm": pm, "context": ctx.strip() or "none"}, "{!r} -> {} expected {}:00 - {}:00".format(text, fmt(got), ea, eb), (ea, eb), got)]
        return out
    if kind == "clock_suffix":
        _, text, (ha, ma), (hb, mb), cname, _ts = case
        got = res_obs(parse(text, ts))
        day = ctx_day(cname, ts)
        A = datetime(day.year, day.month, day.day, ha, ma)
        B0 = datetime(day.year, day.month, day.day, hb, mb)
        ends = [B0] if B0 > A else [B0 + timedelta(days=1)] + ([B0 + timedelta(hours=12)] if (ha <= 12 and hb <= 12 and B0 + timedelta(hours=12) > A) else [])
        ok = got is not None and got[0] == "I" and got[1] is not None and got[2] is not None and None not in got[1][1:5] and None not in got[2][1:5] and _dt(got[1]) == A and _dt(got[2]) in ends
        out = {"o": "clock_suffix:" + ("ok" if ok else "bad"), "nt": True}
        if not ok:
            out["v"] = [viol({"kind": "clock_range_date_after", "context": cname}, "{!r} -> {} expected start {} end in {}".format(text, fmt(got), A.isoformat(), [x.isoformat() for x in ends]), None, got)]
        return out
    if kind == "bound":
        _, text, x, side, alt, _ts = case
        if res_obs(parse(alt.lower(), ts, latent_time=False)) is not None:
            return {"o": "bound:skip", "skip": "bound word is itself a time expression under the library's patterns (e.g. 'latest' = last part of day)", "nt": False}
        got = res_obs(parse(text, ts, latent_time=False))
        xo = res_obs(parse(x, ts, latent_time=False))
        sig = {"kind": "bound", "side": side, "operand": x}

        def consistent(b):
            """the bound is X: every field it carries agrees with X parsed alone (a weekday may stay un-anchored)"""
            if b is None or b[0] != "T" or xo is None or xo[0] != "T":
                return False
            if all(f is None for f in b[1:]):
                return False
            for i in (1, 2, 3, 4, 5, 7):
                if b[i] is not None and xo[i] is not None and b[i] != xo[i]:
                    return False
                if b[i] is not None and xo[i] is None and i != 5:
                    return False
            if b[6] is not None:
                if xo[6] is not None:
                    return b[6] == xo[6]
                if None in xo[1:4] or date(xo[1], xo[2], xo[3]).weekday() != b[6]:
                    return False
            return True

        ok = got is not None and got[0] == "I" and ((side == "to" and got[1] is None and consistent(got[2])) or (side == "from" and got[2] is None and consistent(got[1])))
        out = {"o": "bound:" + ("ok" if ok else "bad"), "nt": True}
        if not ok:
            exp = ("I", None, xo) if side == "to" else ("I", xo, None)
            out["v"] = [viol(sig, "{!r} -> {} expected {}".format(text, fmt(got), fmt(exp)), exp, got)]
        return out
    raise ValueError(kind)
