"""C02 — every resolution is a well-formed calendar value; accessors never fail.

Every candidate (not only the winner) streamed for every enumerated text x
reference time, with and without latent-time anchoring, is checked field by field
against refcal; start/end/dt accessors are called on each; the span must lie
inside the normalised, label-free text with start < end."""
import itertools
import re

from .. import alphabet, refcal, vocab
from ..common import lib, viol, ts_of, stream
from ..obs import obs, fmt

PID = "C02"
ON_LIBRARY_RAISE = "skip"  # the statement is about resolutions that are returned or streamed
LEVEL = "exploration"
RULE = (
    "Texts = token strings of <=2 tokens (alphabet of C01) + the value-complete grammar forms (all 31x12 day/month pairs incl. impossible ones, with and without year, "
    "all 24x24 hour pairs as ranges with and without a date, all early/late modifier chains up to depth 3 x every part of day, date+duration forms); each streamed with "
    "ctparse_gen(timeout=0) at max_stack_depth 0 or 10, latent on and off; the invariant is evaluated on every candidate.  One evaluation = one stream; "
    "non-trivial = stream with >=1 candidate; distinct = distinct (text, ts, depth, latent)."
)
ASSUMPTIONS = [
    "refcal month lengths / leap rule are the calendar specification; a day+month without year may be 29 Feb",
    "interval order is judged only when both ends carry year, month and day; an end without hour counts as 00:00 (start) / 23:59 (end)",
    "only streamed/returned values are judged, not intermediate productions",
]


def _grammar(tier):
    out = []
    mnames = ["jan", "feb", "mar", "apr", "may", "jun", "jul", "aug", "sep", "oct", "nov", "dec"]
    for m in range(1, 13):
        for d in range(1, 32):
            out.append("{}.{}.".format(d, m))
            out.append("{}.{}.2019".format(d, m))
            out.append("{:02d}.{:02d}.2020".format(d, m))
            if tier == "thorough" or d >= 28:
                out.append("{} {} 2019".format(d, mnames[m - 1]))
                out.append("{} {}th".format(mnames[m - 1], d))
                out.append("{}/{}".format(m, d))
                out.append("{}.{}. 9-5".format(d, m))
                out.append("{}.{}.2019 for 1 month".format(d, m))
                out.append("{}. - {}.{}.2019".format(max(1, d - 2), d, m))
                out.append("28.{}.2019 - {}.".format(m, d))
    # 29 February of every year the year pattern admits (century rule: 1900 is not a leap year, 2000 is)
    for y in range(1900, 2030):
        out.append("29.02.{}".format(y))
        if tier == "thorough" or y % 4 == 0 or y % 100 in (1, 99):
            out.append("29 feb {}".format(y))
            out.append("28.02.{} - 29.02.{}".format(y, y))
            out.append("29.02.{} für 2 tage".format(y))
    hours = range(24)
    for a in hours:
        for b in hours:
            out.append("{}-{}".format(a, b))
            out.append("{}:30 - {}:35".format(a, b))
            if tier == "thorough" or (a % 3 == 0):
                out.append("8.5.2018 {}-{}".format(a, b))
                out.append("tomorrow {}:00 to {}:00".format(a, b))
    # date-time to date-time ranges in every order (a backwards range must never come out as an interval)
    dts = ["{} {}".format(d, t) for d in ("5.5.2020", "6.5.2020", "31.12.2020", "1.1.2021") for t in ("8:00", "9:00", "18:30", "19:00")]
    for a in dts:
        for b in dts:
            out.append("{} - {}".format(a, b))
    # part of day + date + clock range (the part-of-day rule shifts hours of an already dated range)
    for pod in (("abends", "afternoon") if tier == "quick" else ("abends", "morgens", "nachmittags", "evening", "afternoon", "night")):
        for a in hours:
            for b in hours:
                if tier == "thorough" or (a % 3 == 1 and b % 2 == 0) or (a, b) in ((10, 2), (11, 1), (9, 5)):
                    out.append("{} 5.3.2020 {}-{}".format(pod, a, b))
                    if tier == "thorough" or a % 4 == 2:
                        out.append("5.3.2020 {} {}-{}".format(pod, a, b))
                        out.append("tomorrow {} {}:00 - {}:00".format(pod, a, b))
    mods = list(dict.fromkeys(m for m in ("early", "late", "very early", "very late", "sehr früh", "spät")))
    pods = [alts[0] for _, alts in vocab.pods()] + ["morning", "afternoon", "evening", "night", "noon"]
    pods = list(dict.fromkeys(pods))
    for depth in (1, 2, 3):
        for chain in itertools.product(mods[:4] if depth == 3 else mods, repeat=depth):
            for p in pods if depth < 3 else pods[:4]:
                out.append(" ".join(chain) + " " + p)
    for n in (0, 1, 28, 31, 366):
        for u in ("days", "nights", "weeks", "months", "hours", "minutes"):
            out.append("31.1.2020 for {} {}".format(n, u))
            out.append("29.2.2020 14:30 for {} {}".format(n, u))
    return list(dict.fromkeys(out))


def plan(tier, seed):
    edge = [t.isoformat() for t in refcal.EDGE_TS]
    k1 = alphabet.texts_k1(3)
    g = _grammar(tier)
    if tier == "quick":
        k2 = alphabet.texts_k2(2, glued="hazards")
        ts_a = [edge[3], edge[5]]  # 2018-03-07T12:43, 2020-02-28
        ts_k2 = [edge[3]]
    else:
        k2 = alphabet.texts_k2(3, glued="all")
        ts_a = edge
        ts_k2 = [edge[3], edge[8]]

    def gen():
        for t in k1 + g:
            for ts in ts_a:
                for latent in (True, False):
                    yield (t, ts, 0, latent)
                    if tier == "thorough":
                        yield (t, ts, 10, latent)
        for t in k2:
            for ts in ts_k2:
                for latent in (True, False):
                    yield (t, ts, 10, latent)
                    if tier == "thorough":
                        yield (t, ts, 0, latent)

    space = {
        "texts_1_token": len(k1),
        "grammar_forms": len(g),
        "texts_2_tokens": len(k2),
        "reference_times_grammar": len(ts_a),
        "reference_times_2_tokens": len(ts_k2),
        "latent": 2,
        "streams": (len(k1) + len(g)) * len(ts_a) * 2 * (2 if tier == "thorough" else 1) + len(k2) * len(ts_k2) * 2 * (2 if tier == "thorough" else 1),
    }
    return {"space": space, "cases": gen(), "chunk": 32, "hash_distinct": tier == "quick"}


def _check_time(o, what, v, sig):
    from ctparse.types import pod_hours

    _, y, mo, d, h, mi, dow, pod = o
    bad = None
    if mo is not None and not (1 <= mo <= 12):
        bad = "month {}".format(mo)
    elif h is not None and not (0 <= h <= 23):
        bad = "hour {}".format(h)
    elif mi is not None and not (0 <= mi <= 59):
        bad = "minute {}".format(mi)
    elif dow is not None and not (0 <= dow <= 6):
        bad = "weekday {}".format(dow)
    elif pod is not None and pod not in pod_hours:
        bad = "part of day {!r}".format(pod)
    elif d is not None and not (1 <= d <= 31):
        bad = "day {}".format(d)
    elif d is not None and mo is not None:
        yy = y if y is not None else 2000
        if yy < 1 or yy > 9999 or d > refcal.month_len(yy, mo):
            bad = "day {} does not exist in month {}{}".format(d, mo, "" if y is None else " of %d" % y)
    if bad:
        v.append(viol(dict(sig, kind="field_out_of_range", field=bad.split()[0]), "{}: {} in {}".format(what, bad, fmt(o))))


def _dtkey(o, end):
    _, y, mo, d, h, mi, dow, pod = o
    if None in (y, mo, d):
        return None
    return (y, mo, d, h if h is not None else (23 if end else 0), mi if mi is not None else (59 if end else 0))


def run_case(case):
    text, ts_s, depth, latent = case
    cp, gen, m = lib()
    ts = ts_of(ts_s)
    norm = re.sub(" {2,}", " ", re.sub("#[a-zA-Z0-9_-]+", "", m._preprocess_string(text)).strip())
    v = []
    n = 0
    sig = {"latent": latent}
    for c in stream(text, ts, max_stack_depth=depth, latent_time=latent):
        if c is None:
            continue
        n += 1
        r = c.resolution
        o = obs(r)
        what = "{!r} @{} depth={} latent={} candidate {}".format(text, ts_s, depth, latent, fmt(o))
        tn = type(r).__name__
        if o[0] == "T":
            _check_time(o, what, v, sig)
        elif o[0] == "I":
            for e in (o[1], o[2]):
                if e is not None:
                    _check_time(e, what, v, sig)
            if o[1] is not None and o[2] is not None:
                a, b = _dtkey(o[1], False), _dtkey(o[2], True)
                if a is not None and b is not None and a > b:
                    v.append(viol(dict(sig, kind="interval_inverted"), "{}: start after end".format(what)))
        # accessors
        for acc in ("start", "end"):
            if hasattr(type(r), acc):
                try:
                    av = getattr(r, acc)
                    # what the accessor returns must itself be well formed (and convertible when dated)
                    if av is not None:
                        ao = obs(av)
                        _check_time(ao, what + " ." + acc, v, dict(sig, accessor=acc))
                        if None not in ao[1:4]:
                            av.dt
                except Exception as e:
                    v.append(viol(dict(sig, kind="accessor_raises", accessor=acc, type=tn, exc=type(e).__name__), "{}: .{} raised {!r}".format(what, acc, e)))
        if o[0] == "T" and None not in o[1:4]:
            try:
                r.dt
            except Exception as e:
                v.append(viol(dict(sig, kind="accessor_raises", accessor="dt", type=tn, exc=type(e).__name__), "{}: .dt raised {!r}".format(what, e)))
        if o[0] == "I":
            for end in (r.t_from, r.t_to):
                if end is not None and None not in (end.year, end.month, end.day):
                    try:
                        end.dt
                    except Exception as e:
                        v.append(viol(dict(sig, kind="accessor_raises", accessor="dt", type="Interval end", exc=type(e).__name__), "{}: end .dt raised {!r}".format(what, e)))
        # span
        ms, me = r.mstart, r.mend
        if not (isinstance(ms, int) and isinstance(me, int) and 0 <= ms < me <= len(norm)):
            v.append(viol(dict(sig, kind="span_out_of_text", type=tn, zero=(ms == me)), "{}: span [{}-{}] not inside normalised text of length {} with start < end".format(what, ms, me, len(norm))))
        if len(v) > 6:
            break
    return {"o": "n>0" if n else "n=0", "nt": n > 0, "v": v[:6], "st": {"candidates": n}}
