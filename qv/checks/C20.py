"""C20 — date part and clock part compose: '<day> <time>' is that day at that time.

Relational (no hand-written expected value): D = ctparse(day), T = ctparse(clock,
latent off), X = ctparse(day + connector + clock) in both orders; when D is a full
date and T a time of day, X must be Time(D.date, T.hour, T.minute or 0)."""
from .. import refcal, vocab
from ..common import parse, res_obs, viol, ts_of
from ..obs import fmt, is_date, is_tod
from .C06 import clock_forms

PID = "C20"
LEVEL = "exploration"
RULE = (
    "Day expressions (absolute notations, relative days, weekday forms, day of month, day+month; English and German) x clock strings (every notation of C06 at the enumerated clock times) x "
    "arrangements {'D C', 'D at C', 'D um C', 'C D', 'C on D', 'C am D', 'at C D', 'um C D'} x reference times.  Cases whose stand-alone day is not a full date or whose stand-alone clock is not a time of day are skipped "
    "and counted (vacuity guard: evidence reports how many were judged).  Excluded as stated: a 12:xx clock directly followed by German 'am <day>'.  Non-trivial = every judged case; distinct = distinct (text, ts)."
)
ASSUMPTIONS = ["the meaning of each part alone is judged by C03-C06; this check only demands the homomorphism"]

DAYS = [
    "8.5.2018", "08.05.2018", "8/5/2018", "8. mai 2018", "may 8th 2018", "31.12.2019", "29.2.2020",
    "today", "heute", "tomorrow", "morgen", "übermorgen", "yesterday", "gestern",
    "monday", "montag", "friday", "freitag", "sunday", "this friday", "next tuesday", "nächsten mittwoch", "friday next week", "thursday",
    "the 5th", "5th", "5.", "31.", "12.5.", "12. mai", "may 12", "12th of may", "29.2.", "december 31",
]
ARR = [("D C", "{d} {c}"), ("D at C", "{d} at {c}"), ("D um C", "{d} um {c}"), ("C D", "{c} {d}"), ("C on D", "{c} on {d}"), ("C am D", "{c} am {d}"), ("at C D", "at {c} {d}"), ("um C D", "um {c} {d}")]


def plan(tier, seed):
    if tier == "quick":
        times = [(0, 0), (8, 0), (9, 30), (12, 15), (17, 0), (23, 55)]
        ts_list = ["2018-03-07T12:43:00"]
    else:
        times = [(h, m) for h in (0, 1, 7, 8, 9, 11, 12, 13, 17, 20, 23) for m in (0, 5, 30, 59)]
        ts_list = ["2018-03-07T12:43:00", "2019-12-31T23:59:30", "2020-02-28T00:00:00"]
    clocks = []
    for h, m in times:
        for key, text in clock_forms(h, m):
            clocks.append((key, text, h))
    clocks = list(dict.fromkeys(clocks))

    def gen():
        for ts in ts_list:
            for d in DAYS:
                for key, c, h in clocks:
                    for aname, fmt_ in ARR:
                        yield (d, c, key, aname, fmt_.format(d=d, c=c), h, ts)
        if tier == "quick":
            # roll-over reference time (the resolved day lies in the next year): reference-time dependent day expressions x two clock times
            for d in DAYS[7:]:
                for key, c, h in clocks:
                    if h in (8, 17):
                        for aname, fmt_ in ARR:
                            yield (d, c, key, aname, fmt_.format(d=d, c=c), h, "2019-12-31T23:59:30")

    space = {"day_expressions": len(DAYS), "clock_strings": len(clocks), "clock_times": len(times), "arrangements": len(ARR), "reference_times": len(ts_list), "rollover_reference_time_quick": "2019-12-31T23:59:30 for the reference-time dependent day expressions x clock hours {8, 17}"}
    return {"space": space, "cases": gen(), "chunk": 128, "hash_distinct": tier == "quick"}


_cache = {}


def _p(text, ts, latent):
    k = (text, ts, latent)
    if k not in _cache:
        if len(_cache) > 5000:
            _cache.clear()
        _cache[k] = res_obs(parse(text, ts, latent_time=latent))
    return _cache[k]


def run_case(case):
    d, c, key, aname, text, h, ts = case
    if aname == "C am D" and h % 12 == 0 and not c.lower().rstrip(".").endswith(("uhr", "h")):
        return {"o": "excluded", "skip": "12:xx (or 0:xx) clock directly followed by German 'am <day>' (am/pm ambiguity, excluded by the property)", "nt": False}
    if aname == "C am D" and key in ("h:mm am", "h:mmam", "h:mm a.m.", "h.mm am", "hh:mm AM", "h am", "ham", "h a.m.", "H o'clock"):
        return {"o": "excluded", "skip": "German connector 'am' after an English am/pm or o'clock suffix ('8 am am montag'): language mix nobody writes, not part of the grammar", "nt": False}
    import re as _re

    mdot = _re.match(r"^(\d{1,2})\.(\d{2})\b", c)
    if mdot and 1 <= int(mdot.group(2)) <= 12 and 1 <= int(mdot.group(1)) <= 31:
        return {"o": "excluded", "skip": "dotted clock 'H.MM' with MM <= 12 also reads as day.month (12.05 = 12 May): genuinely ambiguous next to a day", "nt": False}
    D = _p(d, ts, True)
    T = _p(c, ts, False)
    if not is_date(D):
        return {"o": "base-day-not-date", "skip": "stand-alone day expression is not a full date", "nt": False}
    if not is_tod(T):
        return {"o": "base-clock-not-tod", "skip": "stand-alone clock expression is not a time of day", "nt": False}
    X = res_obs(parse(text, ts))
    exp = ("T", D[1], D[2], D[3], T[4], T[5] or 0, None, None)
    Xn = X
    if X is not None and X[0] == "T":
        Xn = X[:5] + (X[5] or 0,) + X[6:]
    out = {"o": "ok" if Xn == exp else "bad", "nt": True}
    if Xn != exp:
        why = "other"
        if X is not None and X[0] == "T":
            if X[1:4] != D[1:4] and X[4] == T[4]:
                why = "day_moved"
            elif X[1:4] == D[1:4] and X[4] is None:
                why = "clock_dropped"
            elif X[1:4] == D[1:4]:
                why = "clock_changed"
            elif X[1] is None:
                why = "day_dropped"
        # does the composed reading exist and win once the default depth limit is lifted?
        X0 = res_obs(parse(text, ts, max_stack_depth=0))
        if X0 is not None and X0[0] == "T":
            X0 = X0[:5] + (X0[5] or 0,) + X0[6:]
        cause = "depth_limit_truncation" if X0 == exp else "other"
        out["keys"] = ["{}|{}|{}|{}".format(cause, aname, key, d)]
        out["v"] = [viol({"kind": why, "arrangement": aname, "notation": key, "day": d, "cause": cause, "combo": "{}|{}|{}".format(aname, key, d)}, "{!r} @{} -> {} expected {} (day alone {}, clock alone {})".format(text, ts, fmt(X), fmt(exp), fmt(D), fmt(T)), exp, X)]
    return out


def finalize(agg, tier, seed):
    # every (cause | arrangement | notation | day) combination that failed in this run, listed (the known-findings file names them one by one)
    agg.extra["failing_combinations"] = sorted(agg.keys)
