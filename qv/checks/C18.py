"""C18 — resolutions compare, hash and print by value; the printed form round-trips.

Reference model: the observation tuple (qv.obs.obs).  Enumerated: all
present/absent patterns of Time over boundary value sets (all pairs), full-range
single-field sweeps, all Interval pairs over a Time set incl. open ends, all
Duration amounts x units x spans (all pairs), every gold string of the dataset; every candidate the parser produces for the corpus and grammar sentences (latent on/off)."""
import itertools
import json
import os

from ..obs import obs
from ..common import viol
from .. import runner

PID = "C18"
ON_LIBRARY_RAISE = "skip"  # a raising parse is C01's finding
LEVEL = "exploration"
RULE = (
    "All-pairs enumeration: for every ordered pair (a, b) of the enumerated value objects, a == b must equal "
    "(type(a) is type(b) and obs(a) == obs(b)) and equal objects must have equal hashes; per object nb_str -> parse_nb_string "
    "round-trips and nb_str is injective on obs; every candidate value produced by the parser for the bundled corpus + grammar sentences must equal, and hash like, its hand-built twin and its parse_nb_string(nb_str()) image; operation sequences of depth 2 on one object ((nothing | hash | == | hash then ==) ; assignment of one public field, also of a field of an interval end, to the value three donor objects carry there) must leave it equal to, and hashing like, a freshly built object of its new value and unequal to one of its old value.  One evaluation = one row (object a against every b of its family). "
    "A row is non-trivial when it contains at least one equal pair at different spans AND at least one unequal pair; "
    "rows are distinct objects by construction."
)
ASSUMPTIONS = [
    "value semantics = observation tuple read attribute by attribute (year, month, day, hour, minute, DOW, POD / both ends / amount, unit)",
    "Time field domains: boundary sets for the all-pairs product, full ranges for single-field sweeps (year 1..9999)",
]

_fam = {}


def _types():
    from ctparse.types import Time, Interval, Duration, DurationUnit, pod_hours
    from ctparse.corpus import parse_nb_string

    return Time, Interval, Duration, DurationUnit, pod_hours, parse_nb_string


FIELDS = ["year", "month", "day", "hour", "minute", "DOW", "POD"]


def _time_boundary_sets(tier, pod_keys):
    pk = sorted(pod_keys)
    b = {
        "year": [1990, 2029] if tier == "quick" else [1, 1990, 9999],
        "month": [1, 12],
        "day": [1, 31],
        "hour": [0, 23],
        "minute": [0, 59],
        "DOW": [0, 6],
        "POD": [pk[0], pk[-1]],
    }
    return b


def build_families(tier):
    Time, Interval, Duration, DurationUnit, pod_hours, _ = _types()
    b = _time_boundary_sets(tier, pod_hours.keys())
    times = []
    for mask in range(128):
        doms = [(b[f] if mask >> i & 1 else [None]) for i, f in enumerate(FIELDS)]
        for vals in itertools.product(*doms):
            times.append(dict(zip(FIELDS, vals)))
    # spans: each value object exists at two different spans
    time_objs = []
    for k, kw in enumerate(times):
        for sp in ((0, 0), (3, 9)):
            t = Time(**kw)
            t.mstart, t.mend = sp
            time_objs.append(t)
    # sweeps
    sweeps = []
    bases = [dict(), dict(year=2020, month=2, day=29), dict(hour=12, minute=0), dict(year=2018, month=3, day=7, hour=12, minute=43, DOW=2, POD="morning")]
    full = {
        "year": range(1, 10000) if tier == "thorough" else list(range(1, 10000, 37)) + [9999],
        "month": range(1, 13),
        "day": range(1, 32),
        "hour": range(0, 24),
        "minute": range(0, 60),
        "DOW": range(0, 7),
        "POD": sorted(pod_hours.keys()),
    }
    for bi, base in enumerate(bases):
        for f in FIELDS:
            objs = []
            for v in full[f]:
                kw = dict(base)
                kw[f] = v
                objs.append(Time(**kw))
            sweeps.append(("sweep:base%d:%s" % (bi, f), objs))
    # interval family
    tset = [None]
    seen = set()
    for kw in [
        dict(), dict(hour=0), dict(hour=0, minute=0), dict(hour=9), dict(hour=17, minute=0), dict(hour=23, minute=59),
        dict(year=2020, month=2, day=29), dict(year=2020, month=3, day=1), dict(year=2019, month=12, day=31), dict(year=2020, month=1, day=1),
        dict(year=2020, month=2, day=29, hour=9, minute=0), dict(year=2020, month=2, day=29, hour=9), dict(year=2020, month=2, day=29, hour=17, minute=0),
        dict(POD="morning"), dict(POD="evening"), dict(year=2020, month=2, day=29, POD="morning"), dict(DOW=0), dict(DOW=6), dict(DOW=0, POD="morning"),
        dict(month=5, day=12), dict(day=12), dict(month=5), dict(year=2020),
    ]:
        tset.append(kw)
    if tier == "thorough":
        for h in range(0, 24, 3):
            for d in (1, 15, 28):
                tset.append(dict(year=2021, month=6, day=d, hour=h, minute=30))
    ivals = []
    for a in tset:
        for c in tset:
            for sp in ((0, 0), (2, 11)):
                i = Interval(None if a is None else Time(**a), None if c is None else Time(**c))
                i.mstart, i.mend = sp
                if i.t_from is not None:
                    i.t_from.mstart, i.t_from.mend = sp[0], sp[0] + 1  # inner spans differ too
                ivals.append(i)
    durs = []
    for u in DurationUnit:
        for n in range(0, 121):
            for sp in ((0, 0), (0, 7), (4, 9)):
                d = Duration(n, u)
                d.mstart, d.mend = sp
                durs.append(d)
    fam = {"time": time_objs, "interval": ivals, "duration": durs}
    for name, objs in sweeps:
        fam[name] = objs
    return fam


def init_worker():
    pass


def _family(tier):
    if tier not in _fam:
        _fam[tier] = build_families(tier)
    return _fam[tier]


def plan(tier, seed):
    fam = _family(tier)
    cross = ["time", "interval", "duration"]

    def gen():
        for name, objs in fam.items():
            for i in range(len(objs)):
                yield ("row", tier, name, i)
        # cross-family rows: one representative of each family against the other families (type distinction)
        for name in cross:
            yield ("cross", tier, name, 0)
        # operation sequences on one object: (hash | == | nothing) ; assign one public field ; compare with a freshly built twin.
        # A resolution denotes what its fields say NOW: equality and hash may not remember an earlier state.
        for name in cross:
            for i in range(min(len(fam[name]), MUT_OBJECTS[tier])):
                yield ("mutate", tier, name, i)
        for k in range(_n_gold()):
            yield ("gold", tier, "dataset", k)
        # values as the parser itself produces them (all candidates, latent on and off): a value that went through rules,
        # span updates and latent anchoring must compare and hash like a hand-built one
        for k in range(len(_sentences())):
            yield ("parsed", tier, "sentences", k)

    space = {"objects_" + k.replace(":", "_"): len(v) for k, v in fam.items() if not k.startswith("sweep")}
    space["sweep_families"] = sum(1 for k in fam if k.startswith("sweep"))
    space["sweep_objects"] = sum(len(v) for k, v in fam.items() if k.startswith("sweep"))
    space["pairs"] = sum(len(v) ** 2 for v in fam.values())
    space["objects_under_assignment_sequences"] = {n: min(len(fam[n]), MUT_OBJECTS[tier]) for n in cross}
    space["dataset_gold_strings"] = _n_gold()
    space["parsed_sentences"] = len(_sentences())
    return {"space": space, "cases": gen(), "chunk": 16}


MUT_OBJECTS = {"quick": 400, "thorough": 10 ** 9}
_MUT_FIELDS = {"Time": FIELDS, "Interval": ["t_from", "t_to"], "Duration": ["value", "unit"]}


def _mutations(a0, donors):
    """(description, mutated object) for every pre-operation x field x donor; the object is a fresh twin of a0 each time"""
    typ = type(a0).__name__
    for pre in ("none", "hash", "eq", "hash+eq"):
        for b in donors:
            steps = [(f, None) for f in _MUT_FIELDS[typ]]
            if typ == "Interval":
                for end in ("t_from", "t_to"):
                    if getattr(a0, end) is not None and getattr(b, end) is not None:
                        steps += [(end, f) for f in FIELDS]
            for f, sub in steps:
                a = _rebuild(obs(a0))
                a.mstart, a.mend = a0.mstart, a0.mend
                if "hash" in pre:
                    hash(a)
                if "eq" in pre:
                    a == _rebuild(obs(a0))
                if sub is None:
                    if getattr(a, f) == getattr(b, f) and obs(getattr(a, f)) == obs(getattr(b, f)) if typ == "Interval" else getattr(a, f) == getattr(b, f):
                        continue
                    val = getattr(b, f)
                    setattr(a, f, _rebuild(obs(val)) if typ == "Interval" else val)
                    yield "{} ; .{} = {!r}".format(pre, f, val), a
                else:
                    if getattr(getattr(a, f), sub) == getattr(getattr(b, f), sub):
                        continue
                    setattr(getattr(a, f), sub, getattr(getattr(b, f), sub))
                    yield "{} ; .{}.{} = {!r}".format(pre, f, sub, getattr(getattr(b, f), sub)), a


_sent = None


def _sentences():
    global _sent
    if _sent is None:
        from .. import alphabet, grammar

        _sent = [(t, ts + ":00") for t, ts in alphabet.corpus_sentences()] + [(s_, "2018-03-07T12:43:00") for _, s_ in grammar.sentences()]
    return _sent


def _rebuild(o):
    """hand-built twin of an observation"""
    Time, Interval, Duration, DurationUnit, pod_hours, _ = _types()
    if o is None:
        return None
    if o[0] == "T":
        return Time(year=o[1], month=o[2], day=o[3], hour=o[4], minute=o[5], DOW=o[6], POD=o[7])
    if o[0] == "I":
        return Interval(_rebuild(o[1]), _rebuild(o[2]))
    return Duration(o[1], DurationUnit(o[2]))


_gold = None


def _golds():
    global _gold
    if _gold is None:
        p = os.path.join(runner.REPO, "datasets", "timeparse_corpus.json")
        with open(p, encoding="utf-8") as fd:
            _gold = [e["gold_parse"] for e in json.load(fd)]
    return _gold


def _n_gold():
    return len(_golds())


def run_case(case):
    kind, tier, name, i = case
    Time, Interval, Duration, DurationUnit, pod_hours, parse_nb_string = _types()
    fam = _family(tier)
    v = []
    if kind == "gold":
        s = _golds()[i]
        a = parse_nb_string(s)
        back = a.nb_str()
        if back != s:
            v.append(viol({"kind": "gold_roundtrip", "type": type(a).__name__}, "gold string {!r} parses to a value printing as {!r}".format(s, back), s, back))
        b = parse_nb_string(back)
        if obs(b) != obs(a):
            v.append(viol({"kind": "gold_roundtrip2", "type": type(a).__name__}, "gold {!r}: value changes over nb_str/parse".format(s)))
        if not (a == b):
            v.append(viol({"kind": "gold_eq", "type": type(a).__name__}, "gold {!r}: parse(nb_str(x)) != x".format(s)))
        return {"o": "gold:" + type(a).__name__, "nt": True, "v": v, "st": {"pairs": 1}}
    if kind == "parsed":
        from ..common import stream

        text, ts = _sentences()[i]
        n = 0
        for latent in (True, False):
            for c in stream(text, ts, latent_time=latent):
                if c is None:
                    continue
                r = c.resolution
                n += 1
                o = obs(r)
                twins = [("hand-built twin", _rebuild(o))]
                try:
                    twins.append(("parse_nb_string(nb_str())", parse_nb_string(r.nb_str())))
                except Exception as e:
                    v.append(viol({"kind": "roundtrip_raises", "type": type(r).__name__, "exc": type(e).__name__, "source": "parser"}, "nb_str/parse_nb_string raised {!r} for candidate {!r} of {!r}".format(e, r, text)))
                for label, t in twins:
                    if obs(t) != o:
                        v.append(viol({"kind": "roundtrip", "type": type(r).__name__, "source": "parser"}, "candidate {!r} of {!r}: {} denotes {}".format(r, text, label, obs(t))))
                    elif not (r == t) or not (t == r):
                        v.append(viol({"kind": "eq_false_negative", "type": type(r).__name__, "source": "parser"}, "candidate {!r} of {!r} (latent={}) != its {} {!r}".format(r, text, latent, label, t)))
                    elif hash(r) != hash(t):
                        v.append(viol({"kind": "hash", "type": type(r).__name__, "source": "parser"}, "candidate {!r} of {!r} (latent={}) equals its {} but hashes differently".format(r, text, latent, label)))
                if len(v) > 3:
                    break
        return {"o": "parsed:" + ("ok" if not v else "bad"), "nt": n > 0, "v": v[:3], "st": {"parser_values": n}}
    if kind == "mutate":
        objs = fam[name]
        a0 = objs[i]
        o0 = obs(a0)
        donors = [objs[(i + 1) % len(objs)], objs[(i * 7 + 3) % len(objs)], objs[len(objs) - 1 - i]]
        n = changed = 0
        for what, a in _mutations(a0, donors):
            n += 1
            want = obs(a)
            twin = _rebuild(want)
            typ = type(a).__name__
            if not (a == twin) or not (twin == a):
                v.append(viol({"kind": "eq_after_assignment", "type": typ, "pre": what.split(" ;")[0]}, "{!r} built, then {}: now denotes {} but != a freshly built {!r}".format(a0, what, want, twin)))
            elif hash(a) != hash(twin):
                v.append(viol({"kind": "hash_after_assignment", "type": typ, "pre": what.split(" ;")[0]}, "{!r} built, then {}: equals a freshly built {!r} but hashes differently".format(a0, what, twin)))
            if want != o0:
                changed += 1
                if a == _rebuild(o0):
                    v.append(viol({"kind": "eq_remembers_old_value", "type": typ}, "{!r} built, then {}: still == a fresh object of the OLD value".format(a0, what)))
            if len(v) > 3:
                break
        return {"o": "mutate:" + ("ok" if not v else "bad"), "nt": changed > 0, "v": v[:3], "st": {"assignment_sequences": n}}
    if kind == "cross":
        a = fam[name][0]
        n = 0
        for other in ("time", "interval", "duration"):
            if other == name:
                continue
            for b in fam[other][:200]:
                n += 1
                if a == b:
                    v.append(viol({"kind": "eq_across_types", "a": name, "b": other}, "{!r} == {!r} although of different kinds".format(a, b)))
                    break
        return {"o": "cross", "nt": False, "v": v, "st": {"pairs": n}}
    objs = fam[name]
    a = objs[i]
    oa = obs(a)
    ha = hash(a)
    typ = type(a).__name__
    n_eq = n_ne = 0
    eq_diffspan = False
    bad_eq = bad_hash = None
    for b in objs:
        want = obs(b) == oa
        got = a == b
        if got != want:
            if bad_eq is None:
                bad_eq = (b, want, got)
        if want:
            n_eq += 1
            if (a.mstart, a.mend) != (b.mstart, b.mend):
                eq_diffspan = True
            if hash(b) != ha and bad_hash is None:
                bad_hash = b
        else:
            n_ne += 1
    if bad_eq is not None:
        b, want, got = bad_eq
        v.append(
            viol(
                {"kind": "eq_false_positive" if got else "eq_false_negative", "type": typ},
                "{!r} == {!r} is {} but values are {}".format(a, b, got, "equal" if want else "different"),
                want,
                got,
            )
        )
    if bad_hash is not None:
        v.append(viol({"kind": "hash", "type": typ}, "equal values with different hashes: {!r} vs {!r}".format(a, bad_hash)))
    # text form
    try:
        s = a.nb_str()
        back = parse_nb_string(s)
        if obs(back) != oa or type(back) is not type(a):
            v.append(viol({"kind": "roundtrip", "type": typ}, "parse_nb_string(nb_str(x)) differs: {!r} -> {!r} -> {!r}".format(a, s, back), oa, obs(back)))
        elif not (back == a):
            v.append(viol({"kind": "roundtrip_eq", "type": typ}, "parse_nb_string(nb_str(x)) != x for {!r}".format(a)))
    except Exception as e:
        v.append(viol({"kind": "roundtrip_raises", "type": typ, "exc": type(e).__name__}, "nb_str/parse_nb_string raised {!r} for {!r}".format(e, a)))
    return {"o": typ + (":ok" if not v else ":bad"), "nt": eq_diffspan and n_ne > 0, "v": v, "st": {"pairs": len(objs), "equal_pairs": n_eq}}


def finalize(agg, tier, seed):
    """nb_str injective on obs, over everything enumerated (needs the global view)."""
    fam = _family(tier)
    bucket = {}
    n = 0
    for name, objs in fam.items():
        for a in objs:
            n += 1
            try:
                s = a.nb_str()
            except Exception:
                continue
            o = obs(a)
            prev = bucket.setdefault(s, o)
            if prev != o:
                agg.add_violation({"kind": "nb_str_not_injective", "type": type(a).__name__}, "nb_str {!r} denotes two different values {} and {}".format(s, prev, o), case=("injective", s))
    agg.extra["nb_str_strings"] = len(bucket)
    agg.extra["objects_total"] = n
    agg.extra["pair_comparisons"] = agg.st.get("pairs", 0)
