"""C01 — parsing is total: any text, reference time and options yield a result object.

Bounded-exhaustive enumeration of texts (all concatenations of <=k tokens of a
mechanically built alphabet; in thorough also every Unicode scalar value as a
one-character text) x the full option product x reference times, plus the
configuration fault 'shipped model file absent' executed in fresh interpreters."""
import itertools
import json
import os
import subprocess
import sys
from random import Random

from .. import alphabet, grammar, refcal, runner
from ..common import lib, viol, ts_of

PID = "C01"
LEVEL = "exploration"
RULE = (
    "Texts = all concatenations of <=k tokens (blank-joined; glued for hazard tokens) from the token alphabet (per-pattern corpus substrings + hazard list); "
    "each is run through ctparse() and ctparse_gen() (and the debug=True generator) under the enumerated option vectors and reference times with a deterministic "
    "scoring budget standing in for non-termination; oracle: no exception, result object returned, str()/repr() return str, subject is str, labels is list of str. "
    "The model-absent fault is executed in fresh interpreter processes with os.path.exists answering False for the model file.  "
    "Non-trivial = a case in which at least one pattern matched (non-empty candidate stream) or the text is a hazard token; distinct = distinct (text, ts, option vector)."
)
ASSUMPTIONS = [
    "strings are sequences of Unicode scalar values (lone surrogates excluded)",
    "non-termination is approximated by a budget of %d scorer calls per stream (the maximum observed on the repaired tree is reported in the evidence)" % 400000,
    "termination under an arbitrary scorer additionally rests on every derivation graph explored by C15 being a finite DAG",
    "termination is observed through a budget of %d scorer calls per call; exceeding it is a violation except under the random scorer without depth limit (fresh random scores keep re-opening productions: finite but astronomically large searches for texts with several ambiguous numbers are counted as capped_random_depth0, not judged)" % 400000,
]

BUDGET = 400000
LATENT = (True, False)
DEPTH = (10, 0, 1)
RML = (1.0, 0.5, 0.1)
SCORER = ("shipped", "dummy", "random")
DEBUG = (False, True)
ALL_OPTS = list(itertools.product(LATENT, DEPTH, RML, SCORER, DEBUG))  # 108
# 6 vectors in which every value of every option occurs
SIX_OPTS = [
    (True, 10, 1.0, "shipped", False),
    (False, 0, 0.5, "dummy", True),
    (True, 1, 0.1, "random", False),
    (False, 10, 0.1, "dummy", False),
    (True, 0, 1.0, "random", True),
    (False, 1, 0.5, "shipped", False),
]
LONG_SENTENCES = [
    "between monday the 5th of january 2020 at 9:30 in the morning and tuesday the 6th of january 2020 at a quarter past 11 in the evening",
    "von montag dem 5. januar 2020 um 9:30 uhr morgens bis dienstag den 6. januar 2020 um viertel nach 11 abends",
    "meeting with john on the first monday of next month at half past eight in the evening for two hours and thirty minutes",
]
PAIR_JOINERS = [" ", " - ", " for ", " bis "]
QUICK_DUMMY = (True, 10, 0.1, "dummy", False)  # constant scorer, short sequences admitted, default depth limit (without the limit some 2-token texts need minutes)
EXTREME_OPTS = [(True, 10, 1.0, "shipped", False), (False, 0, 0.1, "random", False), (True, 0, 0.1, "dummy", False)]


class BudgetExceeded(BaseException):
    pass


def _mk_scorer(kind, seed):
    from ctparse.scorer import Scorer, DummyScorer, RandomScorer

    m = lib()[2]
    inner = {"shipped": lambda: m._DEFAULT_SCORER, "dummy": DummyScorer, "random": lambda: RandomScorer(Random(seed))}[kind]()

    class Budget(Scorer):
        def __init__(self):
            self.n = 0

        def score(self, txt, ts, pp):
            self.n += 1
            if self.n > BUDGET:
                raise BudgetExceeded()
            return inner.score(txt, ts, pp)

        def score_final(self, txt, ts, pp, prod):
            self.n += 1
            if self.n > BUDGET:
                raise BudgetExceeded()
            return inner.score_final(txt, ts, pp, prod)

    return Budget()


def plan(tier, seed):
    edge = [t.isoformat() for t in refcal.EDGE_TS]
    k1 = alphabet.texts_k1(3)
    if tier == "quick":
        k2 = alphabet.texts_k2(2, glued="core")
        k2_ts = [edge[3]]
        k2_opts = EXTREME_OPTS[:2]
        k3 = []
        absent = k1
        cps = []
    else:
        k2 = alphabet.texts_k2(3, glued="all")
        k2_ts = [edge[3], edge[6]]
        k2_opts = SIX_OPTS
        k3 = alphabet.texts_k3_core()
        absent = k1 + alphabet.texts_k2(2, glued="hazards")
        cps = list(range(0, 0x110000, 2048))

    gs = [s_ for _, s_ in grammar.sentences()]
    # quick: second components = first and last sentence of every family (the last ones are the hazard forms: hour-only clocks, huge durations)
    gs_b = list(dict.fromkeys(x for _, ss in grammar.FAMILIES for x in (ss[0], ss[-1])))

    def gen():
        for t in k1:
            for ts in edge:
                # quick: full 108-vector product at one reference time, the six covering vectors at the other eleven
                for o in (ALL_OPTS if (tier != "quick" or edge.index(ts) == 3) else SIX_OPTS):
                    yield ("call", t, ts, o, seed)
        for ti, t in enumerate(k2):
            for ts in k2_ts:
                # quick: the default vector for every text, the random-scorer extreme vector and the constant scorer with relative_match_len 0.1 (default depth) alternate
                for i, o in enumerate(k2_opts if tier != "quick" else (EXTREME_OPTS[0], EXTREME_OPTS[1] if ti % 2 == 0 else QUICK_DUMMY)):
                    # 2-token texts: the stream is consumed separately under the default vector and through debug=True vectors;
                    # under the other vectors the single-result call (which drains the same stream internally) is exercised
                    yield ("call" if (i == 0 or tier != "quick") else "call1", t, ts, o, seed)
        for t in k3:
            for o in EXTREME_OPTS:
                yield ("call", t, edge[3], o, seed)
        # every ordered pair of grammar sentences under each joiner: reaches compositions that need 4-6 tokens
        # (datetime - datetime ranges, date for <huge duration>, part of day + date + range ...)
        for a in gs:
            for b in (gs_b if tier == "quick" else gs):
                for j in ((" - ", " for ") if tier == "quick" else PAIR_JOINERS):
                    for o in (EXTREME_OPTS[:1] if tier == "quick" else EXTREME_OPTS):
                        yield ("call1" if tier == "quick" else "call", a + j + b, edge[3], o, seed)
        # long texts: 3..8 grammar sentences in a row (one contiguous expression of 20+ tokens stresses the scorer's numerics)
        # (a) long low-ambiguity expressions: 10..40 adjacent single-reading tokens
        words = ["monday", "tomorrow", "morning", "übermorgen", "january", "tuesday", "evening", "yesterday", "march", "friday"]
        for k in (10, 15, 20, 22, 25, 30, 40):
            for rot in range(0, 10, 3):
                w = (words[rot:] + words[:rot]) * 5
                for o in (EXTREME_OPTS[0], (False, 10, 1.0, "dummy", False), (True, 10, 0.5, "random", False)):
                    yield ("call", " ".join(w[:k]), edge[3], o, seed)
        for t in LONG_SENTENCES:
            for o in (EXTREME_OPTS[0], (False, 10, 1.0, "dummy", False)):
                yield ("call", t, edge[3], o, seed)
        # (b) 3..5 (thorough 6) grammar sentences in a row
        for n in range(3, 6 if tier == "quick" else 7):
            for start in range(0, len(gs), 5):
                chunk = (gs + gs)[start : start + n]
                for j in (" ", " - ", " and "):
                    # default depth limit only: without it the search over a 30-token expression is astronomically large
                    for o in (EXTREME_OPTS[0], (False, 10, 1.0, "dummy", False)):
                        yield ("call1" if tier == "quick" else "call", j.join(chunk), edge[3], o, seed)
        # amounts beyond every numeric type the productions convert to (float overflow at 1e308, timedelta range): next to a date, a date range, both orders
        huge = ["1" + "0" * 309, "9" * 400, "1" + "0" * 20]
        for start in ("tomorrow", "8.5.2018", "15-18 Nov", "5.3.2021 - 9.3.2021", "friday 10:00"):
            for h in huge:
                for unit in ("days", "nights", "hours", "months", "wochen", "minuten"):
                    for text in ("{} for {} {}".format(start, h, unit), "{} {} {}".format(h, unit, start), "{} {} {}".format(start, h, unit)):
                        # (without depth limit and with relative_match_len 0.1 every suffix of a 400-digit run is a match sequence of its own: 40 s per text; thorough only)
                        for o in ((EXTREME_OPTS[0], QUICK_DUMMY) if tier == "quick" else (EXTREME_OPTS[0], EXTREME_OPTS[2])):
                            yield ("call", text, edge[3], o, seed)
        for b in cps:
            yield ("cpblock", b, edge[3])
        for i in range(0, len(absent), 50):
            yield ("absent", absent[i : i + 50], edge[3])

    space = {
        "tokens": len(alphabet.tokens(3)),
        "texts_1_token": len(k1),
        "texts_2_tokens": len(k2),
        "texts_3_tokens": len(k3),
        "grammar_sentence_pairs_x_joiners": (len(gs) * len(gs_b) * 2) if tier == "quick" else (len(gs) ** 2 * len(PAIR_JOINERS)),
        "option_vectors_full_product": len(ALL_OPTS),
        "option_vectors_2_tokens": len(k2_opts),
        "reference_times": len(edge),
        "reference_times_2_tokens": len(k2_ts),
        "one_char_texts": 2048 * len(cps) - (2048 if cps else 0),
        "model_absent_texts": len(absent),
        "reference_times_full_option_product": len(edge) if tier != "quick" else 1,
    }
    return {"space": space, "cases": gen(), "chunk": 48, "hash_distinct": tier == "quick"}


def _check_result(r, text, sig_base, v):
    m = lib()[2]
    if not isinstance(r, m.CTParse):
        v.append(viol(dict(sig_base, kind="no_result_object"), "ctparse({!r}) returned {!r}, not a result object".format(text, r)))
        return
    for fn in (str, repr):
        try:
            s = fn(r)
            if not isinstance(s, str):
                v.append(viol(dict(sig_base, kind=fn.__name__ + "_not_str"), "{}(result) for {!r} is not a string".format(fn.__name__, text)))
        except Exception as e:
            v.append(
                viol(
                    dict(sig_base, kind=fn.__name__ + "_raises", exc=type(e).__name__, empty=r.resolution is None),
                    "{}(ctparse({!r})) raised {!r}".format(fn.__name__, text, e),
                )
            )
    if not isinstance(r.subject, str):
        v.append(viol(dict(sig_base, kind="subject_not_str"), "subject of {!r} is {!r}".format(text, r.subject)))
    if not (isinstance(r.labels, list) and all(isinstance(x, str) for x in r.labels)):
        v.append(viol(dict(sig_base, kind="labels_not_list_of_str"), "labels of {!r} is {!r}".format(text, r.labels)))


def _one(text, ts, opts, seed, v, st, stream_too=True):
    cp, gen, m = lib()
    latent, depth, rml, sk, debug = opts
    sig_base = {"api": "ctparse"}
    # single-result call (or the debug generator)
    sc = _mk_scorer(sk, seed)
    n_cand = 0
    try:
        r = cp(text, ts=ts, timeout=0, debug=debug, relative_match_len=rml, max_stack_depth=depth, scorer=sc, latent_time=latent)
        if debug:
            items = list(r)
            n_cand = len(items)
            for c in items:
                if c is not None:
                    _check_result(c, text, {"api": "ctparse(debug=True)"}, v)
        else:
            _check_result(r, text, sig_base, v)
    except BudgetExceeded:
        if sk == "random" and depth == 0:
            # without depth limit a scorer that hands out a fresh random score for every call keeps re-admitting productions it has seen (a better
            # score re-opens them): the search is finite but astronomically large for texts with several ambiguous numbers - capped, not judged
            st["capped_random_depth0"] = st.get("capped_random_depth0", 0) + 1
            return 0
        v.append(viol({"kind": "budget_exceeded", "api": "ctparse"}, "ctparse({!r}) made more than {} scorer calls (non-termination?)".format(text, BUDGET)))
    except Exception as e:
        import traceback

        tb = traceback.extract_tb(e.__traceback__)
        where = next((f.name for f in reversed(tb) if "/ctparse/" in f.filename), "?")
        v.append(
            viol(
                {"kind": "raises", "api": "ctparse", "exc": type(e).__name__, "where": where},
                "ctparse({!r}, ts={}, latent={}, depth={}, rml={}, scorer={}, debug={}) raised {!r} in {}".format(text, ts.isoformat(), latent, depth, rml, sk, debug, e, where),
            )
        )
    st["max_scorer_calls"] = max(st.get("max_scorer_calls", 0), sc.n)
    if debug or not stream_too:
        return n_cand if debug else (0 if (not v and getattr(r, "resolution", None) is None) else 1)
    # the candidate stream
    sc = _mk_scorer(sk, seed)
    try:
        for c in gen(text, ts=ts, timeout=0, relative_match_len=rml, max_stack_depth=depth, scorer=sc, latent_time=latent):
            n_cand += 1
            if c is not None:
                _check_result(c, text, {"api": "ctparse_gen"}, v)
    except BudgetExceeded:
        if sk == "random" and depth == 0:
            st["capped_random_depth0"] = st.get("capped_random_depth0", 0) + 1
        else:
            v.append(viol({"kind": "budget_exceeded", "api": "ctparse_gen"}, "ctparse_gen({!r}) made more than {} scorer calls (non-termination?)".format(text, BUDGET)))
    except Exception as e:
        import traceback

        tb = traceback.extract_tb(e.__traceback__)
        where = next((f.name for f in reversed(tb) if "/ctparse/" in f.filename), "?")
        v.append(viol({"kind": "raises", "api": "ctparse_gen", "exc": type(e).__name__, "where": where}, "ctparse_gen({!r}, ts={}) raised {!r} in {}".format(text, ts.isoformat(), e, where)))
    st["max_scorer_calls"] = max(st.get("max_scorer_calls", 0), sc.n)
    return n_cand


_ABSENT_SCRIPT = r"""
import sys, os, json
repo = sys.argv[1]
sys.path.insert(0, repo)
import logging, warnings
warnings.filterwarnings("ignore"); logging.disable(logging.CRITICAL)
_real = os.path.exists
def fake(p):
    if str(p).endswith(os.path.join("models", "model.pbz")):
        return False
    return _real(p)
os.path.exists = fake
import ctparse.ctparse
m = sys.modules["ctparse.ctparse"]
os.path.exists = _real
from datetime import datetime
from ctparse.scorer import DummyScorer
req = json.load(sys.stdin)
ts = datetime.fromisoformat(req["ts"])
out = {"scorer": type(m._DEFAULT_SCORER).__name__, "fails": [], "n": 0, "nonempty": 0}
for t in req["texts"]:
    try:
        r = m.ctparse(t, ts=ts, timeout=0)
        s = str(r); repr(r)
        assert isinstance(r, m.CTParse) and isinstance(r.subject, str) and isinstance(r.labels, list)
        k = len(list(m.ctparse_gen(t, ts=ts, timeout=0)))
        out["n"] += 1
        out["nonempty"] += 1 if k else 0
    except Exception as e:
        out["fails"].append([t, repr(e)])
print(json.dumps(out))
"""


def run_case(case):
    kind = case[0]
    v = []
    st = {}
    if kind in ("call", "call1"):
        _, text, ts_s, opts, seed = case
        n = _one(text, ts_of(ts_s), tuple(opts), seed, v, st, stream_too=kind == "call")
        hazard = text in alphabet.HAZARDS
        return {"o": "cand>0" if n else "cand=0", "nt": bool(n) or hazard, "v": v[:4], "st": st}
    if kind == "cpblock":
        _, b, ts_s = case
        ts = ts_of(ts_s)
        n = 0
        for cpt in range(b, b + 2048):
            if 0xD800 <= cpt <= 0xDFFF:
                continue
            for text in (chr(cpt), "1" + chr(cpt) + "2"):
                n += _one(text, ts, SIX_OPTS[0], 0, v, st)
            if len(v) > 3:
                break
        st["one_char_texts"] = 2048
        return {"o": "cpblock", "nt": True, "v": v[:4], "st": st}
    if kind == "absent":
        _, texts, ts_s = case
        p = subprocess.run([sys.executable, "-c", _ABSENT_SCRIPT, runner.REPO], input=json.dumps({"texts": texts, "ts": ts_s}), capture_output=True, text=True, env=dict(os.environ, PYTHONWARNINGS="ignore"))
        if p.returncode != 0:
            v.append(viol({"kind": "model_absent_import_fails"}, "import/parse with the model file absent failed: {}".format(p.stderr[-500:])))
            return {"o": "absent:crash", "nt": True, "v": v}
        out = json.loads(p.stdout.strip().splitlines()[-1])
        if out["scorer"] != "DummyScorer":
            v.append(viol({"kind": "model_absent_no_fallback"}, "with the model file absent the default scorer is {} (documented fallback: DummyScorer)".format(out["scorer"])))
        for t, e in out["fails"][:3]:
            v.append(viol({"kind": "model_absent_raises"}, "model absent: ctparse({!r}) -> {}".format(t, e)))
        return {"o": "absent:ok" if not v else "absent:bad", "nt": out["nonempty"] > 0, "v": v, "st": {"model_absent_calls": out["n"]}}
    raise ValueError(kind)
