"""C11 — separators, brackets, dash variants and letter case never change the result.

(a) function level, exhaustive: every Unicode scalar value as a single separator
    between 'a' and 'b'; all runs of length <=3 over category representatives;
    leading/trailing runs; idempotence on every output.
(b) end to end: every bundled corpus sentence under each separator substitution,
    each dash substitution and each case change; resolution must equal the base."""
import itertools
import unicodedata

from ..common import lib, parse, res_obs, viol
from ..obs import fmt

PID = "C11"
LEVEL = "exploration"
RULE = (
    "(a) exhaustive over all 1,112,064 Unicode scalar values (blocks of 4096 code points = one evaluation each): expected class from "
    "unicodedata (Z*/C*/Ps/Pe/','/';' -> one blank, Pd/U+2010-2015/U+2043 -> '-'); unassigned-in-unicodedata and regex-vs-unicodedata "
    "disagreements are counted, not judged.  All separator runs of length <=3 over one representative per class, relational oracle "
    "(variant must normalise like its ASCII counterpart), idempotence on every output.  (b) every sentence of ctparse/time/corpus.py and every canonical grammar sentence (+ am/pm forms at hours 1, 11, 12) x "
    "separator / dash / case variants, obs-equality with the base parse.  Non-trivial = a case whose variant text differs from the base text."
)
ASSUMPTIONS = [
    "category oracle: Python unicodedata (Unicode %s); the regex module may implement a newer Unicode version" % unicodedata.unidata_version,
    "upper/title-casing that changes the length of the sentence (e.g. sharp s) is skipped and counted",
]

EXTRA_DASH = [0x2010, 0x2011, 0x2012, 0x2013, 0x2014, 0x2015, 0x2043]
BLOCK = 4096

SEP_REPS = [" ", "\t", "\n", "\u00a0", "\u2003", "\u3000", "\u2028", "\u200b", "\x00", "\x7f", "\u00ad", "(", ")", "[", "}", "\uff08", "\uff09", "\u3010", ",", ";"]
DASH_REPS = ["-", "\u2010", "\u2013", "\u2014", "\u2015", "\u2043", "\ufe58", "\uff0d", "\u058a", "\u2e3a"]


def klass(c):
    cat = unicodedata.category(c)
    if ord(c) in EXTRA_DASH or cat == "Pd":
        return "dash"
    if cat[0] in "ZC" or cat in ("Ps", "Pe") or c in ",;":
        return "sep"
    return "other"


def _corpus():
    from ctparse.time.corpus import corpus
    from .. import grammar

    out = []
    for target, ts, tests in corpus:
        for t in tests:
            out.append((t, ts))
    # + the canonical grammar sentences (12 am / 12 pm, every family), so that case and separator variants hit every production
    for _, s_ in grammar.sentences():
        out.append((s_, "2018-03-07T12:43"))
    from .. import vocab

    for _, alts in list(vocab.dows()) + list(vocab.months()):
        for a in alts:
            out.append((a, "2018-03-07T12:43"))
            out.append(("next " + a if len(a) > 2 else a + " 14 uhr", "2018-03-07T12:43"))
    for _, alts in vocab.pods():
        for a in alts[:12]:
            out.append((a, "2018-03-07T12:43"))
    for h in (1, 11, 12):
        for ap in ("am", "pm", "a.m.", "p.m."):
            out.append(("tomorrow {} {}".format(h, ap), "2018-03-07T12:43"))
            out.append(("{}:30 {}".format(h, ap), "2018-03-07T12:43"))
    # texts with #hashtags whose body looks like a time expression: a label is cut out whatever its letter case
    for t in ("pay rent #friday", "#sprint5 tomorrow", "plan #v2 friday 10:00", "#fun meet john tomorrow 5pm", "tomorrow #work-8pm 5pm", "#may-12 call bob", "next #monday-9am week friday"):
        out.append((t, "2018-03-07T12:43"))
    # letters that only case-fold to an ASCII letter
    for t in ("5. \u017feptember 2020", "\u017fept 5th", "12.\u017fep", "augu\u017ft 3rd", "3. o\u212atober", "\u017fonntag 10 uhr"):
        out.append((t, "2018-03-07T12:43"))
    return list(dict.fromkeys(out))


LONG_RUNS = [" " * 300, "\n" * 300, "\u00a0" * 260, " \t" * 200]


def _all_pd():
    return [chr(cp) for cp in range(0x110000) if not (0xD800 <= cp <= 0xDFFF) and unicodedata.category(chr(cp)) == "Pd"] + [chr(c) for c in EXTRA_DASH]


def plan(tier, seed):
    corp = _corpus()
    pd = list(dict.fromkeys(_all_pd()))
    sep_variants = ["  ", "\t", "\u00a0", ", ", " ; ", "\n", " \u200b", " (", ") ", "\u3000", "\x0b\x0c"]
    if tier == "thorough":
        sep_variants += [a + b for a in SEP_REPS[:12] for b in SEP_REPS[:12] if a + b != "  "]
    sep_variants = list(dict.fromkeys(sep_variants))
    runs_alpha = SEP_REPS + DASH_REPS

    def gen():
        for b in range(0, 0x110000, BLOCK):
            yield ("cp", b)
        # runs of length 1..3 over representatives (one evaluation per first element)
        for first in runs_alpha:
            yield ("runs", first)
        for i, (text, ts) in enumerate(corp):
            for v in sep_variants:
                yield ("e2e", "sep", v, text, ts)
            for v in ("lower", "upper", "title", "swap"):
                yield ("e2e", "case", v, text, ts)
            if "-" in text:
                for d in pd:
                    yield ("e2e", "dash", d, text, ts)
            yield ("e2e", "wrap", " ,;( ", text, ts)
            # separator runs far longer than any sentence (a run is ONE blank however long it is)
            if i % (1 if tier == "thorough" else 3) == 0 or "#" in text:
                for v in LONG_RUNS:
                    yield ("e2e", "sep", v, text, ts)
                yield ("e2e", "wrap", "\n" * 300, text, ts)
                yield ("e2e", "wrap", " " * 257, text, ts)

    n_dash_sent = sum(1 for t, _ in corp if "-" in t)
    space = {
        "code_points": 0x110000 - 2048,
        "code_point_blocks": 0x110000 // BLOCK,
        "run_alphabet": len(runs_alpha),
        "runs_len_le3": len(runs_alpha) + len(runs_alpha) ** 2 + len(runs_alpha) ** 3,
        "corpus_sentences": len(corp),
        "separator_variants": len(sep_variants),
        "long_run_variants": [len(r) for r in LONG_RUNS] + [300, 257],
        "case_variants": 4,
        "dash_characters": len(pd),
        "sentences_with_hyphen": n_dash_sent,
        "e2e_cases": len(corp) * (len(sep_variants) + 5) + n_dash_sent * len(pd),
    }
    return {"space": space, "cases": gen(), "chunk": 8}


def _pp():
    return lib()[2]._preprocess_string


_rx_cache = {}


def _regex_class(c):
    """what the regex module itself thinks of c (used only to tell 'library wrong' from 'Unicode tables differ')"""
    import regex

    if "sep" not in _rx_cache:
        _rx_cache["sep"] = regex.compile(r"[,;\p{Z}\p{C}\p{Ps}\p{Pe}]", regex.VERSION1)
        _rx_cache["dash"] = regex.compile("\\p{Pd}|[\u2010-\u2015]|\u2043", regex.VERSION1)
    if _rx_cache["sep"].fullmatch(c):
        return "sep"
    if _rx_cache["dash"].fullmatch(c):
        return "dash"
    return "other"


def run_case(case):
    kind = case[0]
    pp = _pp()
    v = []
    st = {}
    if kind == "cp":
        b = case[1]
        n_sep = n_dash = n_other = n_unassigned = n_unres = 0
        for cp in range(b, b + BLOCK):
            if 0xD800 <= cp <= 0xDFFF:
                continue
            c = chr(cp)
            cat = unicodedata.category(c)
            k = klass(c)
            got = pp("a" + c + "b")
            exp = {"sep": "a b", "dash": "a-b", "other": "a" + c + "b"}[k]
            if cat == "Cn":
                n_unassigned += 1  # not an assigned code point of the reference table: outside the quantifier
                continue
            if got != exp:
                if _regex_class(c) != k:
                    n_unres += 1
                    continue
                if k == "other":
                    # the statement does not require other characters to be preserved (counted only) - but whatever comes out is a normal form
                    st["other_not_preserved"] = st.get("other_not_preserved", 0) + 1
                    if pp(got) != got:
                        v.append(viol({"kind": "idempotence", "class": "other"}, "U+{:04X}: normal form {!r} of {!r} normalises again to {!r}".format(cp, got, "a" + c + "b", pp(got))))
                    continue
                v.append(viol({"kind": "single_separator", "class": k, "category": cat}, "U+{:04X} ({}) between a and b -> {!r}, expected {!r}".format(cp, cat, got, exp), exp, got))
                continue
            if k == "sep":
                n_sep += 1
                # leading / trailing
                if pp(c + "a b" + c) != "a b":
                    v.append(viol({"kind": "leading_trailing", "category": cat}, "U+{:04X} leading/trailing not ignored: {!r}".format(cp, pp(c + "a b" + c))))
            elif k == "dash":
                n_dash += 1
            else:
                n_other += 1
            if pp(got) != got:
                v.append(viol({"kind": "idempotence"}, "normalising {!r} again gives {!r}".format(got, pp(got))))
        st.update({"cp_sep": n_sep, "cp_dash": n_dash, "cp_other": n_other, "cp_unassigned_in_reference": n_unassigned, "cp_unresolved_table_mismatch": n_unres})
        return {"o": "cp:sep=%d,dash=%d" % (min(n_sep, 1), min(n_dash, 1)), "nt": n_sep + n_dash > 0, "v": v, "st": st}
    if kind == "runs":
        first = case[1]
        alpha = SEP_REPS + DASH_REPS
        n = 0
        for L in (0, 1, 2):
            for rest in itertools.product(alpha, repeat=L):
                run = first + "".join(rest)
                n += 1
                ascii_run = "".join(" " if klass(c) == "sep" else "-" for c in run)
                got = pp("a" + run + "b")
                ref = pp("a" + ascii_run + "b")
                if got != ref:
                    v.append(viol({"kind": "run_vs_ascii"}, "run {!r}: {!r} but its ASCII counterpart {!r} gives {!r}".format(run, got, ascii_run, ref), ref, got))
                if all(klass(c) == "sep" for c in run):
                    if got != "a b":
                        v.append(viol({"kind": "run_not_one_blank"}, "separator run {!r} -> {!r}".format(run, got), "a b", got))
                    lt = pp(run + "a b" + run)
                    if lt != "a b":
                        v.append(viol({"kind": "leading_trailing_run"}, "leading/trailing run {!r} -> {!r}".format(run, lt), "a b", lt))
                if pp(got) != got:
                    v.append(viol({"kind": "idempotence"}, "normalising {!r} again gives {!r}".format(got, pp(got))))
                if len(v) > 5:
                    break
        return {"o": "runs", "nt": True, "v": v[:5], "st": {"runs": n}}
    # end to end
    _, vk, var, text, ts = case
    ts = ts + ":00" if len(ts) == 16 else ts
    if vk == "sep":
        t2 = text.replace(" ", var)
    elif vk == "dash":
        t2 = text.replace("-", var)
    elif vk == "wrap":
        t2 = var + text + var[::-1]
    else:
        t2 = {"lower": text.lower(), "upper": text.upper(), "title": text.title(), "swap": text.swapcase()}[var]
        if len(t2) != len(text):
            return {"o": "e2e:skip", "skip": "case change alters sentence length", "nt": False}
    base = res_obs(parse(text, ts))
    got = res_obs(parse(t2, ts))
    o = {"o": "e2e:%s:%s" % (vk, "ok" if got == base else "bad"), "nt": t2 != text and base is not None}
    if got != base:
        o["v"] = [
            viol(
                {"kind": "e2e_" + vk, "variant": ("U+%04X" % ord(var)) if vk == "dash" else (var if len(var) <= 8 else "%r x %d" % (var[:2], len(var) // 2) if var[:2] * (len(var) // 2) == var and var[0] != var[1] else "%r x %d" % (var[0], len(var))), "text": text},
                "{!r} -> {} but variant {} -> {}".format(text, fmt(base), repr(t2) if len(t2) < 120 else "%r... (%d chars)" % (t2[:60], len(t2)), fmt(got)),
                base,
                got,
            )
        ]
    return o
