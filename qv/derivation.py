"""Explicit-state exploration of the derivation graph of a text, on the REAL rule
functions of the working tree (the registry's wrappers are the transition
relation; arguments are deep-copied so that no transition can disturb another).

The graph is the specification of the search in ctparse._ctparse:
  initial states  = maximal gap-free sequences of pattern matches with maximal coverage
  transitions     = (rule name, window) such that every predicate holds on the window
                    and the production returns a value
  terminal states = states without outgoing transitions
"""
import copy
import re
import sys

from .obs import obs


class Cap(Exception):
    pass


def elem_key(e):
    return (obs(e), e.mstart, e.mend)


def state_key(prod):
    return tuple(elem_key(e) for e in prod)


def normalise(text):
    import ctparse.ctparse  # noqa

    m = sys.modules["ctparse.ctparse"]
    return re.sub(" {2,}", " ", re.sub("#[a-zA-Z0-9_-]+", "", m._preprocess_string(text)).strip())


def all_matches(norm):
    """own loop over the registered patterns: every overlapping match of every pattern"""
    from ctparse import rule as RU
    from ctparse.types import RegexMatch

    seen = {}
    for rid, rr in RU._regex.items():
        for mm in rr.finditer(norm, overlapped=True):
            rm = RegexMatch(rid, mm)
            seen.setdefault((rid, rm.mstart, rm.mend), rm)
    return [seen[k] for k in sorted(seen, key=lambda k: (k[1], k[2], k[0]))]


def maximal_sequences(norm, matches):
    """all source-to-sink paths of the adjacency DAG (edge i->j iff j starts at/after i ends, only whitespace between)"""
    n = len(matches)
    succ = [[] for _ in range(n)]
    has_pred = [False] * n
    for i in range(n):
        for j in range(n):
            # zero-length matches cannot occur (C19), so j lies strictly after i in the text
            if i != j and matches[i].mend > matches[i].mstart and matches[j].mstart >= matches[i].mend and norm[matches[i].mend : matches[j].mstart].strip() == "":
                succ[i].append(j)
                has_pred[j] = True
    out = []

    def walk(path):
        if len(out) > 20000:
            raise Cap("more than 20000 match sequences")
        i = path[-1]
        if not succ[i]:
            out.append(tuple(matches[k] for k in path))
            return
        for j in succ[i]:
            walk(path + [j])

    for i in range(n):
        if not has_pred[i]:
            walk([i])
    return out


def coverage(seq):
    return seq[-1].mend - seq[0].mstart


class Graph:
    def __init__(self, text, ts, relative_match_len=1.0, state_cap=20000):
        from ctparse import rule as RU
        from ctparse.types import RegexMatch

        self.text = text
        self.ts = ts
        self.norm = normalise(text)
        self.matches = all_matches(self.norm)
        seqs = maximal_sequences(self.norm, self.matches) if self.matches else []
        self.n_sequences = len(seqs)
        if seqs:
            mx = max(coverage(s) for s in seqs)
            seqs = [s for s in seqs if coverage(s) >= mx * relative_match_len]
        self.initial = []  # keys
        self.states = {}  # key -> prod (objects)
        self.edges = {}  # key -> [(rule, succ key)]
        self.impure = []  # (rule name, window before, window after)
        self.transitions = 0
        self.rule_fired = set()
        self.depth = {}
        rules = list(RU.rules.items())
        frontier = []
        for s in seqs:
            k = state_key(s)
            if k not in self.states:
                self.states[k] = s
                self.depth[k] = 0
                frontier.append(k)
            self.initial.append(k)
        self.initial = list(dict.fromkeys(self.initial))
        while frontier:
            nxt = []
            for k in frontier:
                prod = self.states[k]
                out = []
                for name, (w, preds) in rules:
                    L = len(preds)
                    if L == 0 or L > len(prod):
                        continue
                    for i in range(0, len(prod) - L + 1):
                        ok = True
                        for p, e in zip(preds, prod[i : i + L]):
                            if not p(e):
                                ok = False
                                break
                        if not ok:
                            continue
                        args = tuple(e if isinstance(e, RegexMatch) else copy.deepcopy(e) for e in prod[i : i + L])
                        before = tuple(elem_key(a) for a in args)
                        res = w(ts, *args)
                        after = tuple(elem_key(a) for a in args)
                        if res is None:
                            if before != after:
                                self.impure.append((name, before, after, None))
                            continue
                        # a production that hands back one of its arguments is observed after the wrapper's span update;
                        # purity is judged on the *other* view: a fresh deep copy of the original window must be unchanged
                        if before != after:
                            self.impure.append((name, before, after, elem_key(res)))
                        self.transitions += 1
                        self.rule_fired.add(name)
                        res = copy.deepcopy(res)
                        new = prod[:i] + (res,) + prod[i + L :]
                        nk = state_key(new)
                        out.append((name, nk))
                        if nk not in self.states:
                            if len(self.states) >= state_cap:
                                raise Cap("more than {} states".format(state_cap))
                            self.states[nk] = new
                            self.depth[nk] = self.depth[k] + 1
                            nxt.append(nk)
                self.edges[k] = out
            frontier = nxt
        self.terminal = [k for k, e in self.edges.items() if not e]

    def is_dag(self):
        indeg = {k: 0 for k in self.states}
        for k, es in self.edges.items():
            for _, s in set(es):
                indeg[s] += 1
        todo = [k for k, d in indeg.items() if d == 0]
        seen = 0
        while todo:
            k = todo.pop()
            seen += 1
            for _, s in set(self.edges.get(k, ())):
                indeg[s] -= 1
                if indeg[s] == 0:
                    todo.append(s)
        return seen == len(self.states)

    def replay(self, production):
        """NFA replay of a reported production sequence; returns the set of state keys reached (empty = not a derivation)"""
        ids = tuple(p for p in production if isinstance(p, int))
        names = [p for p in production if not isinstance(p, int)]
        if tuple(production[: len(ids)]) != ids:
            return set()
        cur = {k for k in self.initial if tuple(e[0][1] for e in k) == ids}
        for n in names:
            cur = {s for k in cur for (rn, s) in self.edges.get(k, ()) if rn == n}
            if not cur:
                return cur
        return cur

    def terminal_values(self):
        """{obs value: example state key} over all non-match elements of terminal states"""
        out = {}
        for k in self.terminal:
            for e in k:
                if e[0][0] != "R":
                    out.setdefault(e[0], k)
        return out

    def all_values(self):
        out = set()
        for k in self.states:
            for e in k:
                if e[0][0] != "R":
                    out.add(e[0])
        return out
