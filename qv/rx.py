"""Enumerate the (finite) language of the star-free fragments used in the rule
patterns, so that surface forms come from the library's own vocabulary and are
never invented by the harness.

Supported: literals, character sets of literals, alternation, groups (named or
not), `?`, `\\s*`/`\\s+`/`\\s?` (rendered as "" / one blank), `\\.?`, `\\b` and
look-arounds (rendered as empty; every produced string is afterwards confirmed by
a full match of the real compiled pattern, so an over-generated string is
dropped, never used)."""
import re

try:
    import re._parser as sre_parse  # py3.11+
    import re._constants as sre_c
except ImportError:  # pragma: no cover
    import sre_parse
    import sre_constants as sre_c


class Unsupported(Exception):
    pass


def _cat(a, b, limit):
    out = []
    seen = set()
    for x in a:
        for y in b:
            s = x + y
            if s not in seen:
                seen.add(s)
                out.append(s)
                if len(out) > limit:
                    raise Unsupported("language too large")
    return out


def _alts(lists):
    out = []
    seen = set()
    for l in lists:
        for s in l:
            if s not in seen:
                seen.add(s)
                out.append(s)
    return out


def _expand(seq, limit):
    res = [""]
    for op, av in seq:
        if op == sre_c.LITERAL:
            res = _cat(res, [chr(av)], limit)
        elif op == sre_c.IN:
            chars = []
            for o2, a2 in av:
                if o2 == sre_c.LITERAL:
                    chars.append(chr(a2))
                elif o2 == sre_c.CATEGORY and a2 == sre_c.CATEGORY_SPACE:
                    chars.append(" ")
                elif o2 == sre_c.RANGE and a2[1] - a2[0] < 12:
                    chars.extend(chr(c) for c in range(a2[0], a2[1] + 1))
                else:
                    raise Unsupported("set item {}".format(o2))
            res = _cat(res, chars, limit)
        elif op == sre_c.BRANCH:
            res = _cat(res, _alts([_expand(b, limit) for b in av[1]]), limit)
        elif op == sre_c.SUBPATTERN:
            res = _cat(res, _expand(av[3], limit), limit)
        elif op in (sre_c.MAX_REPEAT, sre_c.MIN_REPEAT):
            lo, hi, sub = av
            body = _expand(sub, limit)
            if set(body) <= {" "}:
                # whitespace run: absent (if allowed) or a single blank
                opts = ([""] if lo == 0 else []) + [" "]
            elif (lo, hi) == (0, 1):
                opts = [""] + body
            elif lo == hi == 1:
                opts = body
            else:
                raise Unsupported("repeat {} {}".format(lo, hi))
            res = _cat(res, _alts([opts]), limit)
        elif op == sre_c.AT:
            pass
        elif op in (sre_c.ASSERT, sre_c.ASSERT_NOT):
            pass
        elif op == sre_c.CATEGORY and av == sre_c.CATEGORY_SPACE:
            res = _cat(res, [" "], limit)
        else:
            raise Unsupported("op {}".format(op))
    return res


def language(pattern, limit=20000, confirm=True):
    """All strings of the pattern's language (whitespace runs normalised to one blank),
    in pattern order (optional parts absent first)."""
    parsed = sre_parse.parse(pattern, re.IGNORECASE | re.UNICODE)
    out = _expand(list(parsed), limit)
    out = [s for s in out if s]
    if confirm:
        import regex

        rr = regex.compile("(?i)(?:" + pattern + ")", regex.VERSION1)
        out = [s for s in out if rr.fullmatch(s)]
    return out
